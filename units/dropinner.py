"""Unit `dropinner` (C06): the terminal step of append-on-drop (metrique/src/lib.rs): when the inner value of an
AppendAndCloseOnDrop is dropped, the entry is taken, closed and appended to the sink exactly once - the entry as it stands at that
moment, i.e. with every mutation made through the owner.  Drop::drop is verified as an inherent method so that the type invariant
"the entry is present until drop" can be a precondition.  WHEN the inner value is dropped is the keep-alive protocol (Kani group
`keepalive`, bounded)."""

NAME = "dropinner"
PROPERTIES = ["C06"]
L = "metrique/src/lib.rs"

PRELUDE = r'''
pub trait CloseValue: Sized { type Closed; spec fn closed(self) -> Self::Closed; fn close(self) -> (r: Self::Closed) ensures r == self.closed(); }
pub trait CloseEntry: CloseValue {}
pub trait InflectableEntry {}
pub uninterp spec fn was_appended<S, E>(sink: S, entry: E) -> bool;
pub trait EntrySink<E>: Sized {
    // one call hands one entry to the sink
    fn append(&self, entry: E) ensures was_appended(*self, entry);
}
pub type RootMetric<E> = RootEntry<<E as CloseValue>::Closed>;
// keep_alive.rs (its protocol: Kani group keepalive, bounded): here only WHICH keep-alive a guard belongs to
#[verifier::external_body] #[verifier::reject_recursive_types(T)] pub struct Parent<T> { _p: core::marker::PhantomData<T> }
#[verifier::external_body] pub struct Guard { _p: u8 }
#[verifier::external_body] pub struct DropAll { _p: u8 }
pub uninterp spec fn keeps_alive<T>(g: Guard, p: Parent<T>) -> bool;
pub uninterp spec fn force_drops<T>(g: DropAll, p: Parent<T>) -> bool;
impl<T> Parent<T> {
    pub uninterp spec fn owned(&self) -> T;
    #[verifier::external_body] pub fn new(t: T) -> (r: Parent<T>) ensures r.owned() == t { unimplemented!() }
    #[verifier::external_body] pub fn new_guard(&self) -> (r: Guard) ensures keeps_alive(r, *self) { unimplemented!() }
    #[verifier::external_body] pub fn force_drop_guard(&self) -> (r: DropAll) ensures force_drops(r, *self) { unimplemented!() }
}
use std::marker::PhantomPinned;
#[verifier::external_type_specification] pub struct ExPhantomPinned(std::marker::PhantomPinned);
'''

ITEMS = [
    # (type level only) RootEntry is declared without its `M: InflectableEntry` bound: this Verus loses the associated-type bound
    # `CloseEntry: CloseValue<Closed: InflectableEntry>` that makes RootMetric<E> well-formed
    dict(kind="raw", label="RootEntry (bound dropped)", text="#[verifier::reject_recursive_types(M)]\npub struct RootEntry<M> { pub metric: M }\n"),
    dict(kind="fn", file=L, impl=r"^impl < M : InflectableEntry > RootEntry < M >$", name="new", ret="r", label="RootEntry::new",
         impl_header_override="impl<M> RootEntry<M>",
         ensures="r.metric == metric,"),
    dict(kind="struct", file=L, name="AppendAndCloseOnDropInner", attrs=["#[verifier::reject_recursive_types(E)]", "#[verifier::reject_recursive_types(S)]"]),
    dict(kind="fn", file=L, impl=r"^impl < E : CloseEntry , S : EntrySink < RootMetric < E >> > Drop for AppendAndCloseOnDropInner < E , S >$", name="drop", label="AppendAndCloseOnDropInner::drop",
         impl_header_override="impl<E: CloseEntry, S: EntrySink<RootMetric<E>>> AppendAndCloseOnDropInner<E, S>",
         requires="old(self).entry is Some,",
         ensures="""
            // C06: the entry - as it stands when the inner value is dropped - is closed and appended, once; afterwards it is gone
            was_appended(old(self).sink, RootEntry { metric: old(self).entry->0.closed() }),         // OBL drop_closes_and_appends_the_entry
            final(self).entry is None,                                                               // OBL entry_is_taken_so_it_cannot_be_appended_again
            final(self).sink == old(self).sink,
         """),
    # the owner's one-line constructors: each guard belongs to THIS entry's keep-alive
    dict(kind="struct", file=L, name="AppendAndCloseOnDrop", attrs=["#[verifier::reject_recursive_types(E)]", "#[verifier::reject_recursive_types(S)]"]),
    dict(kind="struct", file="metrique/src/slot.rs", name="FlushGuard"),
    dict(kind="struct", file="metrique/src/slot.rs", name="ForceFlushGuard"),
    dict(kind="fn", file="metrique/src/slot.rs", impl=r"^impl ForceFlushGuard$", name="new", ret="r", label="ForceFlushGuard::new", sig_replace=[("pub(crate) fn", "pub fn")],
         ensures="r._drop_guard == _drop_guard,"),
    dict(kind="fn", file=L, impl=None, name="append_and_close", ret="r", label="append_and_close",
         ensures="r.inner.owned() == (AppendAndCloseOnDropInner { entry: Some(base), sink }),      // OBL owner_holds_the_entry_and_the_sink"),
    dict(kind="fn", file=L, impl=r"^impl < E : CloseEntry \+ Send \+ Sync \+ 'static , S : EntrySink < RootMetric < E >> \+ Send \+ Sync \+ 'static > AppendAndCloseOnDrop < E , S >$", name="flush_guard", ret="r", label="AppendAndCloseOnDrop::flush_guard",
         ensures="keeps_alive(r._drop_guard, self.inner),      // OBL flush_guard_belongs_to_this_entry"),
    dict(kind="fn", file=L, impl=r"^impl < E : CloseEntry \+ Send \+ Sync \+ 'static , S : EntrySink < RootMetric < E >> \+ Send \+ Sync \+ 'static > AppendAndCloseOnDrop < E , S >$", name="force_flush_guard", ret="r", label="AppendAndCloseOnDrop::force_flush_guard",
         ensures="force_drops(r._drop_guard, self.inner),      // OBL force_flush_guard_belongs_to_this_entry"),
]
POSTLUDE = ""
CANARY = dict(fn="AppendAndCloseOnDropInner::drop", replace=("final(self).entry is None,", "final(self).entry is Some,"))
