"""Unit `globalsink` (C17): the routing precedence of a global entry sink - the functions get_test_sink, try_sink and try_append
inside the body of `macro_rules! global_entry_sink` (metrique-writer-core/src/global.rs), with the test-util feature on.

The macro body is ordinary Rust apart from `$crate` / `$name`; the extractor finds the functions inside the macro's token tree
(`inside_macro`).  Process-global state is read through five accessors that are rewritten to stand-ins returning a snapshot
(one thread's view): the thread-local test sink, the current tokio runtime, the per-runtime test-sink map, and the attached sink.
Proved: an entry goes to exactly one destination - the thread's test sink if installed, otherwise the current runtime's test sink,
otherwise the attached sink; with none of these try_append hands the entry back unchanged; try_sink returns the same choice.
NOT decided: attach / guards (install, restore on drop, panics), anything across threads or runtimes."""
import re

NAME = "globalsink"
PROPERTIES = ["C17"]
G = "metrique-writer-core/src/global.rs"
_M = "macro_rules ! global_entry_sink"


def m1_test_util(text):
    """M1: $crate::__test_util! { BODY }  ->  { BODY }   (feature test-util on: the macro expands to its argument)"""
    n = len(re.findall(r"\$crate::__test_util!\s*\{", text))
    return re.sub(r"\$crate::__test_util!\s*\{", "{", text), n


def _stmt(name, old, new, doc):
    def f(text):
        n = text.count(old)
        return text.replace(old, new), n
    f.__name__ = name
    f.__doc__ = doc
    return f


m2 = _stmt("m2_try_current", "$crate::__tokio::runtime::Handle::try_current()", "verif_tokio_try_current()", "M2: the current tokio runtime handle, if any")
m3 = _stmt("m3_thread_local", "THREAD_LOCAL_TEST_SINK.with(|cell| cell.borrow().clone())", "verif_thread_local_test_sink()", "M3: a clone of the thread-local test sink")
m4 = _stmt("m4_runtime_sinks", "runtime_sinks().lock().unwrap()", "verif_runtime_sinks()", "M4: the locked per-runtime test-sink map")
m5 = _stmt("m5_sink_read", "SINK.read().unwrap()", "verif_sink_read()", "M5: read access to the attached sink")

m6 = _stmt("m6_documented_panic", 'panic!("A test sink was already installed for this runtime.', 'verif_documented_panic("A test sink was already installed for this runtime.',
           "M6: the documented panic of a second install: control does not continue (Verus would demand that a panic! be unreachable)")
m7 = _stmt("m7_crate_global_path", "$crate::global::TokioRuntimeTestSinkGuard", "TokioRuntimeTestSinkGuard", "M7: $crate path of the guard type")

m8 = _stmt("m8_sink_write", "SINK.write().unwrap()", "verif_sink_write()", "M8: write access to the attached sink")
m9 = _stmt("m9_attach_panic", 'panic!("Already installed a global {NAME} sink,', 'verif_documented_panic("Already installed a global {NAME} sink,', "M9: the documented panic of a second attach")
def m10_store(text):
    """M10: `*GUARD = Some((BoxEntrySink::new(sink), Box::new(handle)));` (assignment through the write guard, DerefMut) ->
    `GUARD.verif_store(BoxEntrySink::new(sink), Box::new(handle));` - a method that carries C17's obligation: an attached sink is never overwritten"""
    pat = r"\*([a-z_][a-z_0-9]*) = Some\(\(BoxEntrySink::new\(sink\), Box::new\(handle\)\)\);"
    n = len(re.findall(pat, text))
    return re.sub(pat, r"\1.verif_store(BoxEntrySink::new(sink), Box::new(handle));", text), n


m10 = m10_store
m11 = _stmt("m11_tl_with", "THREAD_LOCAL_TEST_SINK.with(", "verif_tl_with(", "M11: access to the thread-local cell (LocalKey::with runs the closure on this thread's cell)")
m12 = _stmt("m12_tl_store", "*borrowed = sink;", "borrowed.verif_store(sink);",
            "M12: assignment through the RefMut (DerefMut), as a method that carries C17's obligation: an installed test sink is never replaced by another")


def m13_panic(text):
    """M13: panic!( -> verif_documented_panic(   (see M6)"""
    n = text.count("panic!(")
    return text.replace("panic!(", "verif_documented_panic("), n


VARIANT_DEFAULTS = {"tl": "contract"}

PRELUDE = r'''
pub trait Entry {}
pub struct VerifGlobal {}
pub uninterp spec fn ghost_id<E>(e: E) -> int;
#[verifier::external_body] pub struct BoxEntrySink { _p: u8 }
pub uninterp spec fn appended_to(s: BoxEntrySink, entry: int) -> bool;
impl BoxEntrySink {
    #[verifier::external_body]
    pub fn append<E: Entry + Send + 'static>(&self, entry: E) ensures appended_to(*self, ghost_id(entry)) { unimplemented!() }
}
impl Clone for BoxEntrySink { #[verifier::external_body] fn clone(&self) -> (r: BoxEntrySink) ensures r == *self { unimplemented!() } }
#[verifier::external_body] pub struct Handle { _p: u8 }
#[verifier::external_body] pub struct AnyHandle { _p: u8 }

// ---- one thread's view of the process-global state (assumed: the accessors return what is installed right now) -----------
#[verifier::external_body] #[derive(Clone, Copy)] pub struct RuntimeId { _p: u8 }
pub uninterp spec fn tl_sink() -> Option<BoxEntrySink>;                 // thread-local test sink
pub uninterp spec fn in_runtime() -> Option<RuntimeId>;                 // the tokio runtime this thread runs in
pub uninterp spec fn rt_sinks() -> Map<RuntimeId, BoxEntrySink>;        // test sinks installed per runtime
pub uninterp spec fn attached() -> Option<BoxEntrySink>;                // the attached (production) sink
#[verifier::external_body] pub struct RtHandle { _p: u8 }
impl RtHandle {
    pub uninterp spec fn rid(&self) -> RuntimeId;
    #[verifier::external_body] pub fn id(&self) -> (r: RuntimeId) ensures r == self.rid() { unimplemented!() }
}
#[verifier::external_body]
pub fn verif_tokio_try_current() -> (r: Result<RtHandle, ()>)
    ensures (r is Ok) == (in_runtime() is Some), r is Ok ==> r->Ok_0.rid() == in_runtime()->0
{ unimplemented!() }
#[verifier::external_body]
pub fn verif_thread_local_test_sink() -> (r: Option<BoxEntrySink>) ensures r == tl_sink() { unimplemented!() }
#[verifier::external_body] pub struct RtMapGuard { _p: u8 }
impl RtMapGuard {
    #[verifier::external_body]
    pub fn get(&self, id: &RuntimeId) -> (r: Option<&BoxEntrySink>)
        ensures (r is Some) == rt_sinks().contains_key(*id), r is Some ==> *r->0 == rt_sinks()[*id]
    { unimplemented!() }
}
#[verifier::external_body] pub fn verif_runtime_sinks() -> RtMapGuard { unimplemented!() }
// ---- installing a runtime test sink: the map behind the mutex, as the locking thread sees it ------------------------------
pub uninterp spec fn installed(id: RuntimeId, s: BoxEntrySink) -> bool;
#[verifier::external_body] pub struct PoisonError { _p: u8 }
impl core::fmt::Debug for PoisonError { #[verifier::external_body] fn fmt(&self, f: &mut core::fmt::Formatter<'_>) -> core::fmt::Result { unimplemented!() } }
#[verifier::external_body] pub struct RtMapArc { _p: u8 }
#[verifier::external_body] pub struct RtMapGuardMut { _p: u8 }
#[verifier::external_body] pub fn runtime_sinks() -> &'static RtMapArc { unimplemented!() }
impl Clone for RtMapArc { #[verifier::external_body] fn clone(&self) -> (r: RtMapArc) { unimplemented!() } }
impl RtMapArc {
    // the lock is not poisoned (M6: the documented panic happens after the guard is released); the guard shows the installed sinks
    #[verifier::external_body]
    pub fn lock(&self) -> (r: Result<RtMapGuardMut, PoisonError>) ensures r is Ok, r->Ok_0@ == rt_sinks() { unimplemented!() }
}
impl RtMapGuardMut {
    pub uninterp spec fn view(&self) -> Map<RuntimeId, BoxEntrySink>;
    #[verifier::external_body]
    pub fn contains_key(&self, id: &RuntimeId) -> (r: bool) ensures r == self@.contains_key(*id) { unimplemented!() }
    #[verifier::external_body]
    pub fn get(&self, id: &RuntimeId) -> (r: Option<&BoxEntrySink>)
        ensures (r is Some) == self@.contains_key(*id), r is Some ==> *r->0 == self@[*id]
    { unimplemented!() }
    // HashMap::insert, with the obligation C17 puts on every caller: a runtime's installed test sink is never overwritten
    // ("installing a second test sink of the same kind panics without damaging the global")
    #[verifier::external_body]
    pub fn insert(&mut self, id: RuntimeId, s: BoxEntrySink) -> (r: Option<BoxEntrySink>)
        requires !old(self)@.contains_key(id),                          // OBL installed_runtime_sink_is_never_overwritten
        ensures final(self)@ == old(self)@.insert(id, s), r is None, installed(id, s),
    { unimplemented!() }
}
#[verifier::external_body] pub struct TokioRuntimeTestSinkGuard { _p: u8 }
impl TokioRuntimeTestSinkGuard {
    pub uninterp spec fn rid(&self) -> RuntimeId;
    #[verifier::external_body]
    pub fn new(runtime_id: RuntimeId, map: RtMapArc) -> (r: TokioRuntimeTestSinkGuard) ensures r.rid() == runtime_id { unimplemented!() }
}
// ---- attach: the RwLock<Option<(BoxEntrySink, Box<dyn Any>)>> behind SINK, as the writing thread sees it -------------------
pub trait EntrySinkBoxable {}
impl BoxEntrySink {
    pub uninterp spec fn boxed_from<S>(s: S) -> BoxEntrySink;
    #[verifier::external_body] pub fn new<S: EntrySinkBoxable>(s: S) -> (r: BoxEntrySink) ensures r == BoxEntrySink::boxed_from(s) { unimplemented!() }
}
pub uninterp spec fn stored_as_attached(s: BoxEntrySink) -> bool;
#[verifier::external_body] pub struct SinkWriteGuard { _p: u8 }
#[verifier::external_body] pub fn verif_sink_write() -> (r: SinkWriteGuard) ensures r@ == attached() { unimplemented!() }
impl SinkWriteGuard {
    pub uninterp spec fn view(&self) -> Option<BoxEntrySink>;
    #[verifier::external_body] pub fn is_some(&self) -> (r: bool) ensures r == (self@ is Some) { unimplemented!() }
    #[verifier::external_body] pub fn is_none(&self) -> (r: bool) ensures r == (self@ is None) { unimplemented!() }
    // M10: `*write = Some((sink, handle))`
    #[verifier::external_body]
    pub fn verif_store<H>(&mut self, s: BoxEntrySink, h: Box<H>)
        requires old(self)@ is None,                                    // OBL attached_sink_is_never_overwritten
        ensures final(self)@ == Some(s), stored_as_attached(s),
    { unimplemented!() }
    // what the detach closure of the handle does (runs later, when the handle is dropped)
    #[verifier::external_body] pub fn take(&mut self) -> (r: Option<(BoxEntrySink, AnyHandle)>) ensures final(self)@ is None { unimplemented!() }
}
#[verifier::external_body] pub struct AttachHandle { _p: u8 }
impl AttachHandle {
    #[verifier::external_body] pub fn new<F: FnOnce() -> ()>(join: F) -> AttachHandle { unimplemented!() }
}
// ---- the thread-local test sink: LocalKey<RefCell<Option<BoxEntrySink>>>, as this thread sees it --------------------------
pub uninterp spec fn tl_stored(s: Option<BoxEntrySink>) -> bool;
#[verifier::external_body] pub struct TlCell { _p: u8 }
#[verifier::external_body] pub struct TlRefMut { _p: u8 }
impl TlCell {
    #[verifier::external_body] pub fn borrow_mut(&self) -> (r: TlRefMut) ensures r@ == tl_sink() { unimplemented!() }
    // RefCell::replace / take, with the obligation C17 puts on every caller: an installed test sink is never replaced by ANOTHER one
    #[verifier::external_body]
    pub fn replace(&self, s: Option<BoxEntrySink>) -> (r: Option<BoxEntrySink>)
        requires !(tl_sink() is Some && s is Some),                       // OBL installed_thread_local_sink_is_never_replaced
        ensures r == tl_sink(), tl_stored(s),
    { unimplemented!() }
    #[verifier::external_body] pub fn take(&self) -> (r: Option<BoxEntrySink>) ensures r == tl_sink(), tl_stored(None::<BoxEntrySink>) { unimplemented!() }
}
impl TlRefMut {
    pub uninterp spec fn view(&self) -> Option<BoxEntrySink>;
    #[verifier::external_body] pub fn is_some(&self) -> (r: bool) ensures r == (self@ is Some) { unimplemented!() }
    #[verifier::external_body] pub fn is_none(&self) -> (r: bool) ensures r == (self@ is None) { unimplemented!() }
    // M12: `*borrowed = sink`
    #[verifier::external_body]
    pub fn verif_store(&mut self, s: Option<BoxEntrySink>)
        requires !(old(self)@ is Some && s is Some),                      // OBL installed_thread_local_sink_is_never_overwritten
        ensures final(self)@ == s, tl_stored(s),
    { unimplemented!() }
}
// M11: LocalKey::with - the closure runs once, on this thread's cell
#[verifier::external_body]
pub fn verif_tl_with<R, F: FnOnce(&TlCell) -> R>(f: F) -> (r: R)
    requires forall|c: &TlCell| #[trigger] f.requires((c,)),
    ensures exists|c: &TlCell| #[trigger] f.ensures((c,), r),
{ unimplemented!() }
// M6: `panic!(..)` - control never continues past it
#[verifier::external_body] pub fn verif_documented_panic(msg: &str) -> ! { unimplemented!() }
#[verifier::external_body] pub struct SinkReadGuard { _p: u8 }
impl SinkReadGuard {
    #[verifier::external_body]
    pub fn as_ref(&self) -> (r: Option<&(BoxEntrySink, AnyHandle)>)
        ensures (r is Some) == (attached() is Some), r is Some ==> (r->0).0 == attached()->0
    { unimplemented!() }
}
#[verifier::external_body] pub fn verif_sink_read() -> SinkReadGuard { unimplemented!() }

// C17: the destination, by fixed precedence
pub open spec fn test_sink_now() -> Option<BoxEntrySink> {
    if tl_sink() is Some { tl_sink() }
    else if in_runtime() is Some && rt_sinks().contains_key(in_runtime()->0) { Some(rt_sinks()[in_runtime()->0]) }
    else { None }
}
pub open spec fn destination() -> Option<BoxEntrySink> {
    if test_sink_now() is Some { test_sink_now() } else { attached() }
}
'''

_IMPL = r"^impl AttachGlobalEntrySink for \$ name$"

ITEMS = [
    dict(kind="fn", file=G, inside_macro=_M, impl=None, name="get_test_sink", ret="r", label="get_test_sink",
         rules={"m2_try_current": 1, "m3_thread_local": 1, "m4_runtime_sinks": 1}, pre_rewrites=[m2, m3, m4],
         ensures="r == test_sink_now(),     // OBL test_sink_precedence_thread_then_runtime"),
    # thread-local set_test_sink: full contract (the closure keeps its shape and gets a contract) ...
    dict(kind="fn", file=G, inside_macro=_M, impl=None, name="set_test_sink", sig_has="(sink: Option<BoxEntrySink>)", label="set_test_sink", only_if={"tl": "contract"},
         rules={"m11_tl_with": 1, "m12_tl_store": 1, "m13_panic": 1}, pre_rewrites=[m11, m12, m13_panic], unpinned=["m13_panic"],
         closures={1: dict(params="cell: &TlCell", ret="(p: bool)", ensures="p == (tl_sink() is Some && verif_sink0 is Some), !p ==> tl_stored(verif_sink0),")},
         proofs=[("before", "let should_panic = verif_tl_with (", "let ghost verif_sink0 = sink;")],
         ensures="""
            // C17: installing a second thread-local test sink never returns (it panics), and leaves the installed one alone
            // (precondition of the store); otherwise the given value is stored (Some: install, None: restore)
            !(tl_sink() is Some && sink is Some),                                                            // OBL second_thread_local_install_panics
            tl_stored(sink),                                                                                 // OBL thread_local_sink_is_stored
         """),
    # ... and the weaker variant consulted when that shape is gone: only the obligations carried by the cell's stand-ins
    dict(kind="fn", file=G, inside_macro=_M, impl=None, name="set_test_sink", sig_has="(sink: Option<BoxEntrySink>)", label="set_test_sink", only_if={"tl": "bare"},
         rules={"m11_tl_with": 1, "m13_panic": 1}, pre_rewrites=[m11, m12, m13_panic], unpinned=["m13_panic", "m12_tl_store"]),
    dict(kind="fn", file=G, inside_macro=_M, impl=_IMPL, name="attach", ret="r", label="attach",
         impl_header_override="impl VerifGlobal",
         sig_replace=[("(sink, handle): (impl EntrySink<BoxEntry> + Send + Sync + 'static, impl Any + Send + Sync),", "sink: VerifS, handle: VerifH,"),
                      ("fn attach(", "fn attach<VerifS: EntrySinkBoxable, VerifH>(")],
         rules={"m8_sink_write": 2, "m9_attach_panic": 1, "m10_store": 1}, pre_rewrites=[m8, m9, m10], unpinned=["m9_attach_panic"],
         closures={1: dict(params="", ret="(u: ())")},
         ensures="""
            // C17: attaching while a sink is attached never returns (it panics, after releasing the lock) ...
            attached() is None,                                                                              // OBL second_attach_panics
            // ... and a first attach stores the boxed sink (an attached sink is never overwritten: precondition of the store)
            stored_as_attached(BoxEntrySink::boxed_from(sink)),                                              // OBL first_attach_stores_the_sink
         """),
    dict(kind="fn", file=G, inside_macro=_M, impl=_IMPL, name="try_sink", ret="r", label="try_sink",
         impl_header_override="impl VerifGlobal",
         rules={"m1_test_util": 1, "m5_sink_read": 1}, pre_rewrites=[m1_test_util, m5],
         ensures="r == destination(),       // OBL try_sink_returns_the_destination"),
    dict(kind="fn", file=G, inside_macro=_M, impl=_IMPL, name="try_append", ret="r", label="try_append",
         impl_header_override="impl VerifGlobal",
         rules={"m1_test_util": 1, "m5_sink_read": 1}, pre_rewrites=[m1_test_util, m5],
         ensures="""
            // C17: exactly one destination, by fixed precedence; with none the entry is handed back unchanged
            destination() is Some ==> r is Ok && appended_to(destination()->0, ghost_id(entry)),            // OBL entry_goes_to_the_destination
            destination() is None ==> r == Err::<(), E>(entry),                                              // OBL no_destination_hands_the_entry_back
         """),
    dict(kind="fn", file=G, inside_macro=_M, impl=r"^impl \$ name$", name="set_test_sink_for_tokio_runtime", ret="r", label="set_test_sink_for_tokio_runtime",
         impl_header_override="impl VerifGlobal", sig_replace=[("&$crate::__tokio::runtime::Handle", "&RtHandle"), ("$crate::global::TokioRuntimeTestSinkGuard", "TokioRuntimeTestSinkGuard")],
         rules={"m6_documented_panic": 1, "m7_crate_global_path": 1}, pre_rewrites=[m6, m7], unpinned=["m6_documented_panic"],
         ensures="""
            // C17: a second install on the same runtime never returns (it panics) ...
            !rt_sinks().contains_key(handle.rid()),                                                        // OBL second_runtime_install_panics
            // ... and a first one installs the sink under this runtime's id (the installed one is never overwritten: precondition of insert)
            installed(handle.rid(), sink) && r.rid() == handle.rid(),                                      // OBL first_runtime_install_installs_the_sink
         """),
]
POSTLUDE = ""
OUTER = ""
CANARY = dict(fn="get_test_sink", replace=("r == test_sink_now(),", "r == tl_sink(),"))
