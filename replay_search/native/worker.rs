// Native replay for unit worker (C10): after the last WorkerSink handle is dropped the worker thread must flush what it holds
// and TERMINATE.  A worker that keeps polling the disconnected channel spins: its inner sink sees an unbounded stream of
// flush() calls and the inner sink (moved into the thread) is never dropped.
use metrique_aggregation::sink::WorkerSink;
use metrique_aggregation::traits::{AggregateSink, FlushableSink};
use std::sync::Arc;
use std::sync::atomic::{AtomicBool, AtomicUsize, Ordering};
use std::time::Duration;

struct Probe { flushes: Arc<AtomicUsize>, dropped: Arc<AtomicBool> }
impl AggregateSink<u64> for Probe { fn merge(&mut self, _entry: u64) {} }
impl FlushableSink for Probe { fn flush(&mut self) { self.flushes.fetch_add(1, Ordering::SeqCst); } }
impl Drop for Probe { fn drop(&mut self) { self.dropped.store(true, Ordering::SeqCst); } }

#[test]
fn verif_replay_search() {
    let flushes = Arc::new(AtomicUsize::new(0));
    let dropped = Arc::new(AtomicBool::new(false));
    let sink = WorkerSink::new(Probe { flushes: flushes.clone(), dropped: dropped.clone() }, Duration::from_secs(3600));
    sink.send(1u64);
    drop(sink); // last handle gone
    std::thread::sleep(Duration::from_millis(300));
    let f1 = flushes.load(Ordering::SeqCst);
    std::thread::sleep(Duration::from_millis(200));
    let f2 = flushes.load(Ordering::SeqCst);
    let terminated = dropped.load(Ordering::SeqCst);
    if !terminated || f2 > f1 {
        println!("FAILING_INPUT: history = [WorkerSink::new(inner, 3600 s), send(1), drop(last handle), wait 500 ms]");
        println!("FAILURE: worker thread terminated (inner sink dropped) = {terminated}; flush() calls after the drop: {f1} after 300 ms, {f2} after 500 ms (a terminated worker makes exactly one)");
        panic!("postcondition violated");
    }
    if f2 == 0 {
        println!("FAILING_INPUT: history = [WorkerSink::new(inner, 3600 s), send(1), drop(last handle), wait 500 ms]");
        println!("FAILURE: the worker terminated without a final flush: the merged entry was never emitted");
        panic!("postcondition violated");
    }
    println!("SEARCHED: one history (send, drop last handle): worker flushed {f2} time(s) and terminated");
}
