"""Which units decide which property.  verus: [(unit, variant)], kani: [group names]."""

PROPS = {
    "C04": dict(
        verus=[("waker", {}), ("bgq_run", {}), ("bgq", {}, ["Inner::flush_async"])],
        technique="Verus function contracts on the extracted real WakerTracker methods (step refinement) + inductive lemmas over histories",
        level_text="Deductive proof (Verus/z3) that the real handle_waiting_wakers / will_progress_on_drained_queue bodies refine an abstract step for all states and arguments, "
                   "that the stream is flushed before any held flush signal is released, and unbounded lemmas S1 (no early wake), L1 (bounded wake), S2 (no busy loop) over all step histories. "
                   "The run loop (unit bgq_run) is proved to hand the tracker the result of a real drain and never to park while flush signals are held. Cross-thread happens-before is assumed, not proved.",
        level_note="Trusted: std mpsc try_recv (any result), tokio oneshot Sender drop = completion, derived PartialEq on DrainResult is structural, rewrite R1 (one tracing::debug! line dropped), "
                   "termination of the try_recv loop, Verus + z3.",
        explanation="WakerTracker step contract (real code, verbatim) + unbounded lemmas S1/S2/L1 over the abstract step",
        assumptions=[
            "happens-before of mpsc send -> try_recv and of oneshot Sender drop -> receiver completion (std / tokio)",
            "P1/P2 of the WakerTracker comment: status==Drained means the queue was observed empty since the previous call; "
            "the capacity callback returns an upper bound of the entries queued when the signals were collected (run loop wiring, read not proved)",
            "termination of the `while let Ok(..) = try_recv()` loop (exec_allows_no_decreases_clause): not proved",
        ],
        unreached=["the future returned by flush_async beyond its first poll (stand-in future)", "that a Drained status means the queue was observed empty SINCE the previous call (temporal; P1)"],
    ),
    "C02": dict(
        verus=[("emf_value", {}), ("emf_finish", {})],
        kani=["emf_num", "emf_json"],
        technique="Verus function contracts on the extracted real write_observation / write_metric_value / write_metric over a token view of the buffers",
        level_text="Deductive proof (Verus/z3), for all observation lists of any length with NaN/inf/zero-occurrence entries at any position and any multiplicity, that the metric-value fragment "
                   "appended to the EMF record is `,\"name\":` followed by one numeral or by aligned, non-empty, properly comma-separated Values/Counts arrays, that a skipped metric leaves no trace "
                   "(truncate restores the buffer), and that the declaration list gets its comma iff non-empty. For the real EntryWriter::finish (document assembly; for-loops desugared, iteration stand-ins yield arbitrary elements): a validation error means nothing was written, "
                   "recorded failures are always reported, every record handed to the writer is newline-framed, at least one record is written on success, the entry's own values are in its own record, "
                   "and the dimension part is rebuilt from the prefix.",
        level_note="Trusted: token view of PrefixedStringBuf (6 one-line String wrappers), write_float appends one numeral of a finite double (dtoa), json_string emits one JSON string token (serde_json), "
                   "clamp_to_finite contract (assumed in the Verus unit, PROVED by the Kani harness clamp_to_finite_all_doubles of this same check for all 2^64 doubles), rewrites R1/R2/R3/R6, termination of the observation loop, Verus + z3.",
        explanation="metric-value fragment of the EMF formatter against a token grammar",
        assumptions=[
            "PrefixedStringBuf methods behave as their token-level specs (units/emf_value.py prelude)",
            "serde_json string escaping, itoa and dtoa produce valid JSON tokens",
            "finish() concatenates the verified fragments with fixed literals (not verified: hashbrown/SmallVec iteration is outside both engines)",
        ],
        unreached=["write_all_vectored's retry loop (see C16)", "json_string.rs (serde_json)", "MetricsForDimensionSet::new / EmfBuilder::build (prefix texts)", "the grammar of the whole record (only framing and composition of the verified fragments)"],
    ),
    "C06": dict(
        verus=[("dropinner", {})],
        kani=["keepalive"],
        technique="Verus contract on the real Drop of AppendAndCloseOnDropInner (close + append exactly once) + BOUNDED Kani harnesses executing the real keep-alive protocol (Parent / Guard / DropAll over Arc, Mutex and a boxed closure) for every drop order of a parent, two flush guards and one force-flush guard",
        level_text="Deductive proof (Verus/z3) that when the inner value of an append-on-drop entry is dropped, the entry as it stands at that moment (every mutation made through the owner) is taken, closed and appended to the sink "
                   "exactly once and is gone afterwards. BOUNDED check (Kani/CBMC on the real code, never counted as proved): for each of the 24 orders in which a parent, two flush guards and one force-flush guard can be dropped on one thread, "
                   "after every step the inner value has been dropped exactly when the parent has been dropped and (both flush guards or the force-flush guard) have been dropped, and it is dropped at most once (quick tier: 4 orders, thorough: all 24). "
                   "NOT decided: drops on different threads (the property's schedule quantifier), cloned handles (AppendAndCloseOnDropHandle), more than two flush guards. The owner's constructors: append_and_close puts the entry and the sink into the keep-alive owner; flush_guard / force_flush_guard return guards of THIS entry's keep-alive.",
        level_note="Trusted: Verus + z3; CBMC and Kani's model of Arc / Mutex / Box<dyn FnOnce>. Drop::drop is verified as an inherent method (type invariant 'the entry is present until drop' as precondition); RootEntry is declared without its "
                   "`M: InflectableEntry` bound in the unit (type level only: this Verus loses the associated-type bound that makes RootMetric<E> well-formed).",
        explanation="append-on-drop: terminal step (proof) and keep-alive drop orders (bounded)",
        assumptions=["EntrySink::append hands the entry to the sink once per call", "sequential drop orders stand in for cross-thread ones (Arc / Mutex are linearizable)"],
        unreached=["AppendAndCloseOnDropHandle (Arc of the owner: the owner is dropped when the last clone goes - std Arc)", "cross-thread interleavings"],
    ),
    "C08": dict(
        # emf_fresh: the per-name / per-record automata of the validation functions start from the empty maps that
        # format_with_multiplicity hands them (their precondition) - a leak of one entry's state into the next is a C08 failure too
        verus=[("emf_cfg", {"profile_debug": True}), ("emf_cfg", {"profile_debug": False}), ("emf_validate", {}), ("emf_config", {}), ("emf_metric", {}), ("emf_finish", {}), ("emf_fresh", {})],
        technique="Verus function contracts on the extracted real Emf::builder / all_validations / no_validations / skip_all_validations (once per build profile) and on validate_name / timestamp / validate_string / string over a trusted ghost-map model of hashbrown's entry API",
        level_text="Deductive proof (Verus/z3) that every documented way of enabling validations really enables all three validation switches in BOTH build profiles "
                   "(cfg(debug_assertions) resolved mechanically per profile), that no_validations disables all, and that skip_all_validations is monotone and touches nothing else; "
                   "that names are rejected exactly when empty or `_aws` (iff names are validated), a second timestamp is an error, and the per-name automaton of string members "
                   "(absent -> written, declared dimension -> written, written -> error and map unchanged) holds for the real validate_string body, with the frame 'validation touches no output buffer' and "
                   "'the uniqueness switch only gates the check'; plus an inductive lemma that of n writes under one name at most one is accepted. For the real ValueWriter::metric body: per-metric dimensions without split mode are an error, and the uniqueness automaton per (name, record index) "
                   "(first metric recorded with its index; same metric twice in one record, a metric under a string's name, a metric under a declared dimension name: error), gated only by the switches. "
                   "EntryDimensions configuration checks and the missing-dimension sweep in finish() are not reached. EntryWriter::config: an EntryDimensions is rejected (one error, nothing else changes) exactly after a metric with its own dimensions, when set twice, or when empty; otherwise the entry's dimension sets become the product with the configured sets, names already written keep their record, names are only added (as not-yet-supplied dimensions), with unique-name validation off no error is recorded and with both dimension validations off nothing changes; the two switch configurations only raise their flag; config never touches the formatter's buffers.",
        level_note="Trusted: EmfBuilder::build forwards the switches unchanged (assumed contract, checked syntactically), derive(Default) on three bools is all-false, rewrites R4/R6/R7/R8, Verus + z3. "
                   "The record-level invariant 'no two members share a name' (hashbrown code in ValueWriter::metric) is not reached.",
        explanation="validation switches for both build profiles",
        assumptions=["EmfBuilder::build forwards `validation` unchanged", "derive(Default) for Validation is all-false",
                     "hashbrown entry_ref / OccupiedEntry::{get, get_mut, insert, remove} / VacantEntryRef::insert behave as a map keyed by the name's text (units/emf_validate.py prelude)"],
        unreached=["that EntryWriter::config registers EVERY configured dimension name (its loops are verified for an arbitrary name: what they do to one name, not which names they visit); the product of dimension sets (K4, assumed)", "missing-dimension sweep in finish() (map iteration)", "byte-for-byte equality of validated and unvalidated output (follows from the frames only for the functions under contract)"],
    ),
    "C01": dict(
        # bgq_run: the writer loop leaves only through shut_down (final drain): an entry appended before the last handle went away is
        # still handed to the stream
        verus=[("bgq", {}, ["push", "BackgroundQueue::append", "consume", "report_validation_error", "drain_until_deadline"]), ("bgq_run", {}, ["run"]), ("bgq_build", {}), ("coresink", {})],
        technique="Verus function contracts on the extracted real Inner::push / Receiver::consume / drain_until_deadline over a ghost log of the stream; on the sink plumbing in front of the queue (AppendOnDrop, the AnyEntrySink blanket impl, BoxEntrySink::append_any)",
        level_text="Deductive proof (Verus/z3) of the writer side of the queue: every popped entry is handed to the stream exactly once, in pop order, for every stream result (Ok/Validation/Io), "
                   "nothing but the in-band error report is added, no popped entry is dropped on the deadline path, and push hands every entry to the queue. "
                   "Producer/consumer interleavings are crossbeam's (assumed linearizable FIFO).",
        level_note="Trusted: EntryIoStream ghost log (what 'handing an entry to a stream' means), crossbeam ArrayQueue (FIFO, force_push displaces the oldest), Parker/Unparker only affect latency, "
                   "statistic counters treated as mathematical integers (R9), clock and rate limiter nondeterministic (R2, R10, R11, R13), R1, termination of the pop loop.",
        explanation="sequential core of the background queue against a ghost stream log",
        assumptions=["crossbeam ArrayQueue is a linearizable FIFO", "park/unpark only affect latency: park_deadline returns no later than next_flush",
                     "Receiver::run wiring (drain -> wakers -> park) is read, not proved", "BoxEntrySink::append_any forwards entry.boxed() once (trait-object dispatch, not extracted)"],
        unreached=["the spawned thread actually running Receiver::run (thread::Builder::spawn_scoped stand-in)", "what entry.boxed() reports (BoxEntry bridge: C15)"],
    ),
    "C05": dict(
        verus=[("bgq", {}, ["shut_down", "flush_stream", "drain_until_deadline", "consume", "drop", "forget"]), ("bgq_run", {}), ("bgq_build", {}),
               ("globalguards", {}, ["AttachHandle::drop", "AttachHandle::new", "AttachHandle::forget"])],
        technique="Verus function contracts / anchored assertions on the extracted real Receiver::shut_down, flush_stream, BackgroundQueueJoinHandle::drop and forget",
        level_text="Deductive proof (Verus/z3) of the shutdown order: shut_down drains (every popped entry consumed), then flushes exactly once, then closes the stream with that flush as the last thing it saw; "
                   "dropping a live join handle stores the signal, then unparks, then joins; a forgotten handle does none of it. Thread termination and the forget path of run() are not reached. An AttachHandle runs its detach-and-join function exactly when it is dropped while still holding one; a forgotten handle holds none.",
        level_note="Trusted: as C01, plus std thread::JoinHandle::join, AtomicBool::store, and that Receiver::run calls shut_down when it sees the signal (read, not proved). "
                   "The clause 'after forget the thread exits once the last queue handle is dropped' is NOT decided here.",
        explanation="shutdown order of the background queue",
        assumptions=["Drop runs exactly once"],
        unreached=["whether Arc::get_mut can ever succeed after forget() (run keeps its own clone: read, not decided)", "what the detach function a global sink stores in its AttachHandle does (SINK.write().take(): dropping the stored join handle)", "entries appended after shutdown are discarded"],
    ),
    "C09": dict(
        verus=[("bgq", {}, ["push", "BackgroundQueue::append"]), ("bgq_build", {})],
        technique="Verus function contract on the extracted real Inner::push (effect-witness predicates on the crossbeam calls)",
        level_text="Deductive proof (Verus/z3) that push is loop-free and lock-free, hands the entry to force_push on every path (never drops or returns it itself), "
                   "reports one overflow to the recorder when force_push displaced an entry, and unparks the writer. That force_push displaces the OLDEST entry and keeps the rest in order is crossbeam's contract (assumed).",
        level_note="Trusted: crossbeam ArrayQueue::force_push semantics; absence of a spurious overflow increment (a negative fact about a &self call) is not expressible and not claimed; R1/R2.",
        explanation="push path of the bounded queue",
        assumptions=["ArrayQueue::force_push displaces the oldest element and preserves the order of the rest", "capacity reaches ArrayQueue::new unchanged (do_build, read not proved)"],
        unreached=["BackgroundQueueBuilder::capacity (setter)"],
    ),
    "C03": dict(
        verus=[("emf_value", {}, ["write_observation", "write_metric_value", "write_metric"]), ("emf_metric", {}), ("emf_finish", {})],
        kani=["emf_num"],
        technique="Verus function contracts on the extracted real write_observation / write_metric (payload-carrying tokens): counts, skip rule and metric declaration",
        level_text="Deductive proof (Verus/z3), for every observation and multiplicity, that an unsigned observation is written as that integer with count = multiplicity, a float as its clamp with count = multiplicity, "
                   "a repeated one with count = occurrences x multiplicity saturating at u64::MAX, NaN exactly skipped; that values and counts stay aligned; and that the metric declaration carries the name, "
                   "the unit iff not None, StorageResolution 1 iff high-resolution, and is absent for no-metric or unusable metrics. For the real ValueWriter::metric: a metric without per-metric dimensions (or in ignored-dimension mode) is written to the entry's own buffers, otherwise to the buffers of its dimension set "
                   "(created on first use), exactly once, with the entry's sampling multiplicity. Timestamp, namespace replication and dimension arrays (finish) are not reached.",
        level_note="Trusted: as C02. Float VALUES are uninterpreted in Verus (the mean total/occurrences and the clamp are named spec functions); their numeric correctness is left to the Kani group when it runs.",
        explanation="leaf arithmetic and declaration of one metric",
        assumptions=["float division and clamp are the IEEE operations of the target (uninterpreted in Verus)"],
        unreached=["EntryWriter::finish (timestamp millis, namespace replication, dimension arrays)", "MetricsForDimensionSet::new (per-set prefix text)", "EntryDimensions cartesian product"],
    ),
    "C16": dict(
        verus=[("emf_wav", {}), ("bgq", {}, ["consume", "report_validation_error"]), ("sinks", {}), ("emf_finish", {}, ["EntryWriter::finish"]), ("fmtstream", {})],
        kani=["emf_buf"],
        technique="Verus contract + loop invariant on the real write_all_vectored retry loop (any writer behaviour), composed with Kani proof harnesses on the real advance_slices; Verus contracts on EntryWriter::finish, Receiver::consume, FlushImmediately::append, Tee",
        level_text="Deductive proof (Verus/z3) that write_all_vectored, for ANY sequence of writer answers (accept any 1..=offered bytes, Ok(0), Interrupted any number of times, hard error), delivers on success exactly the concatenation "
                   "of its buffers, in order, once, and on error only a prefix of it - loop invariant 'received + remaining = all, offered list rebuilt each round'; this discharges the contract EntryWriter::finish assumes for it "
                   "(finish: one vectored write per emitted line, in order). advance_slices is used through the contract that Kani/CBMC checks on the real function for every slice count used at a call site (<=5), all lengths and contents. "
                   "Verus proof that the queue's consume, the immediate-flush sink's append (next then flush) and Tee::next / Tee::flush (both streams, eagerly) hand every entry on exactly once whatever the stream returns.",
        level_note="Trusted: Verus + z3; four container-conversion statements of write_all_vectored are replaced by stand-ins (W0-W3, listed in the unit; SmallVec is modelled by the list of byte slices its elements denote); "
                   "io::Write::write_vectored's documented contract (takes a prefix of what was offered, nothing on error) is the environment assumption; termination is not proved (a writer may answer Interrupted forever). "
                   "CBMC/CaDiCaL, Kani's model of std; slice lengths are bounded to 4 bytes in the advance_slices harnesses (the function never reads contents; lengths only enter through checked_sub/slicing).",
        explanation="vectored write loop and sink error handling",
        assumptions=["io::Write implementations report the number of bytes they accepted truthfully and take nothing when they return an error",
                     "advance_slices meets its contract beyond 5 slices x 4 bytes (Kani harness bound)"],
        unreached=["FormattedMakeWriterEntryIoStream (tracing-subscriber MakeWriter)"],
    ),
    "C10": dict(
        verus=[("aggregator", {}), ("agg_value", {}), ("worker", {}), ("mutexsink", {}), ("aggsinks", {}), ("workersend", {})],
        technique="Verus contracts on the real KeyedAggregator::{get_or_create_accum, merge, merge_ref, flush} over a ghost-map model of hashbrown's raw-entry API and drain, and on every per-field aggregation strategy's insert (Sum, KeepLast, MergeOptions, CopyWrapper, Flatten, Distribution)",
        level_text="Deductive proof (Verus/z3) for every storage state and every input: (keyed aggregator) a merged input lands in exactly one aggregate - the one stored under the key the input itself yields, created empty on first use - "
                   "appended to what that aggregate already held, every other aggregate and key untouched; flush emits, for every key held, that key's closed aggregate under its closed key and leaves the storage empty (any number of keys). "
                   "(per-field strategies) one insertion establishes the strategy's relation: sum: new = old + input; keep-last: new = Some(input); option: absent changes nothing, present is inserted by the inner strategy; by-reference copy and flatten delegate; "
                   "distribution: the input is added to the histogram (what that records: C11). Lemmas lift the step to any input sequence (sum of u64 inputs, keep-last). "
                   "(worker sink) the body of the worker thread (the closure handed to thread::spawn, sliced out mechanically) merges every queued entry, answers a flush request only after a flush, and - once the channel reports every handle gone - "
                   "flushes one last time and returns without ever polling the channel again. "
                   "(mutex sink) MutexSink::merge hands every entry to the inner sink's merge (it blocks on the lock and never skips an entry) and MutexSink::close emits what the shared aggregate holds at that moment (never a fresh, empty one). "
                   "(sinks and guards) MergeOnDrop / CloseAndMergeOnDrop hand the value they hold (closed, for the latter) to the target sink when dropped and hold none afterwards; the tee hands every entry to both sinks and flushes both; "
                   "the non-aggregating sink appends the entry, rooted; the embedded Aggregate<T> merges every input (closed by insert) into its one accumulator. "
                   "WorkerSink's producer side: send / merge put exactly the entry on the channel (one send), flush sends one request carrying the sender half of the channel it then waits on. "
                   "NOT decided: cross-thread ordering of sends, the generated Merge / Key impls (proc macro).",
        level_note="Trusted: Verus + z3; hashbrown's raw-entry API (from_hash with the equality closure, into_mut, insert_hashed_nocheck) and drain as a ghost map keyed by the key's abstract text (drain yields every pair exactly once); "
                   "std::sync::Mutex as a stand-in (lock returns Ok - no poisoning - and its guard dereferences to the protected sink; try_lock may fail); the Merge / Key / CloseValue / EntrySink trait contracts; `append` is witnessed by a predicate (one call per drained pair, not a multiplicity count). Type-level deviation: the stand-in `Key` trait's GAT is declared `'static` "
                   "(this Verus' lifetime pass loses the 'static argument; lifetimes have no logical content). R3b, closure contract on the equality closure.",
        explanation="keyed aggregation: key selection, per-field strategies, flush",
        assumptions=["generated Merge / Key impls meet the trait contracts (static_key_matches compares the key text, merge appends the input)",
                     "hashbrown raw-entry / drain behave as a map keyed by key equality"],
        unreached=["generated Merge / Key impls (metrique-macro aggregate.rs)", "Aggregate::insert_and_send_to"],
    ),
    "C11": dict(
        verus=[("hist", {}), ("hist_shared", {}), ("hist_exp", {})],
        kani=["agg_hist"],
        technique="Verus contracts + loop invariants on the real observation-capture loop (Histogram::add_value's and SharedHistogram::add_value's Capturer::metric), the re-aggregation loop (AggregateValue<HistogramClosed>::insert), the sort-and-merge strategy (record_many, drain) "
                  "and the exponential strategies' glue around the `histogram` dependency (record_many, drain closures, scale_up, scale_down; atomic and non-atomic); Kani proof harnesses on the real record_many for the numeric scaling",
        level_text="Deductive proof (Verus/z3), for distributions and value lists of any length: (capture) every observation handed to a histogram is recorded exactly once, in order - a plain observation once at its value, "
                   "Repeated{total, n} n times at total/n, an empty Repeated not at all - hence as many values are recorded as the observations have occurrences (lemma); (re-aggregation) inserting a closed histogram records "
                   "every closed observation the same way; (sort-and-merge) record_many appends `count` copies, and drain reports exactly the run-length encoding of the recorded non-NaN values in ascending order - one "
                   "Repeated{value x count, count} per maximal run of equal values, counts adding up to the number of values (lemma) - and leaves the strategy empty; (exponential, atomic and non-atomic) record_many makes exactly one "
                   "`add` of the scaled, saturated value with the count unchanged, and drain swaps in an empty histogram and reports exactly one Repeated{scale_down(midpoint) x count, count} per non-empty bucket, in bucket order "
                   "(so reported occurrences = bucket counts). Kani/CBMC proof for every double 0 <= x < 2^43 and every count that the value handed to the dependency is floor(x * 2^10), and that values >= 2^54 saturate at u64::MAX. "
                   "NOT decided: the bucket layout of the `histogram` dependency (which bucket a value falls into, its width: the 6.25% / 1/1024 bound), interleaving of concurrent add_value calls on a SharedHistogram (its capture loop is verified for one call at a time, with the Capturer's `&S` declared `&mut S`).",
        level_note="Trusted: Verus + z3; CBMC float model. In Verus floating point is opaque: `a / b`, `a * b`, casts, `a == b`, `min`, `is_nan` are deterministic uninterpreted functions of their operands (axioms / rewrites RF, S4, E1, E4), so 'mean', "
                   "'value x count' and 'scaled midpoint' are stated with those functions and only counts are exact. Exact-text rewrites S1 (sort_by_key(OrderedFloat) -> sorted permutation w.r.t. an opaque total order), S2 (iter().copied().filter(!is_nan)), "
                   "S3 (extend(repeat_n)); R3b, R14; std's Iterator/IntoIterator and the iterator adapters filter/map/collect restated over element sequences with the closures' contracts; the `histogram` crate's Histogram/AtomicHistogram/Bucket are stand-ins "
                   "with an opaque bucket list; usize is 64 bits; the trait's default `record` = record_many(value, 1) is restated, not extracted. In the Kani harnesses `Histogram::add` / `AtomicHistogram::add` are stubbed by a recorder.",
        explanation="histogram capture, re-aggregation, sort-and-merge and exponential glue conservation",
        assumptions=["the `histogram` dependency: add(value, count) adds count to the bucket containing value, iteration yields every bucket once with its range and count, the atomic variant is linearizable",
                     "OrderedFloat's order places ==-equal floats next to each other (so runs are maximal)"],
        unreached=["bucket arithmetic of the `histogram` crate (6.25% bound)", "interleaved add_value calls on one SharedHistogram",
                   "Histogram::add_value / close wiring, HistogramClosed::write"],
    ),
    "C12": dict(
        verus=[("emf_sample", {})],
        kani=["writer_sample", "emf_num", "writer_congress", "writer_congress_rates"],
        technique="Verus contract on the real SampledEmf::format_with_sample_rate + Kani proof harnesses (loop-free, full-domain symbolic inputs) on the real FixedFractionSample::format, rate_to_n_alpha, rate_to_n, ExpMovingAverage::add_sample, GroupState::update_and_retain; bounded Kani check of the real update_rates body on <= 2 groups",
        level_text="Kani/CBMC proof for every representable f32 rate in (0,1] and every random draw that the fixed-fraction sampler forwards exactly when draw <= rate, once, with that rate; that the EMF weight is "
                   "floor(1/rate) or floor(1/rate)+1, chosen as n iff draw < alpha with alpha = (n+1) - 1/rate exactly (so its expectation is 1/rate), saturating at u64::MAX below 2^-63 (partitioned by binade: quick tier 5 binades + small rates, thorough all 52); "
                   "single-step contracts for the congressional sampler's per-group state; and a BOUNDED check (0, 1 and 2 groups, every group state satisfying the per-group invariant, every u32 target and interval count) of the real "
                   "update_rates body: every rate is a number in [0,1], all rates are exactly 1 when the interval saw no more than the target, the interval counter is reset. "
                   "The congress budget sum(avg x rate) <= target, strict positivity and monotonicity of update_rates are NOT decided (relational float facts).",
        level_note="Trusted: CBMC float model, rand's StandardUniform conversion is executed (not stubbed), scripted RngCore supplies arbitrary words. update_rates is checked on a copy of its real body generated each run "
                   "(kani/writer/gen_congress.py) whose `self.groups` is an array-backed stand-in for the hash map's values (the body never reads a key); bounded to 2 groups, never counted as proved. "
                   "Kani's own 'NaN on multiplication/division' checks are not obligations of C12 (an intermediate NaN is absorbed by f32::min / the <= branch) and are ignored for these harnesses.",
        explanation="sampling decision and weight",
        assumptions=["the RNG yields arbitrary words (any value of the draw)", "congress: sum(avg x rate) <= target, rate > 0 and monotonicity are not decided",
                     "update_rates beyond 2 groups (bounded stand-in)"],
        unreached=["CongressSample::sample_rate / format (ahash map, Instant)"],
    ),
    "C13": dict(
        verus=[("slot", {"any_of": [{"slot_inv": "exclusive"}, {"slot_inv": "open"}]})],
        technique="Verus contracts on the real slot functions: make_slot, Slot::new, Slot::open, LazySlot::open, SlotGuard::delay_flush, SlotGuard's Drop::drop, Waiting::take_value / wait_for_value, Slot::wait_for_data, Slot::close (oneshot channel as effect witnesses; representation invariant of Slot proved per operation)",
        level_text="Deductive proof (Verus/z3) of the sequential half of the slot protocol, for every slot state: a slot (and a lazy slot) hands out its guard the first time it is opened and None afterwards, with the chosen parent-drop mode; "
                   "dropping the guard sends the value as last mutated through it, closed, exactly once (the sender is consumed), leaves the guard Dropped, and still holds its flush guard when drop() returns (so in wait mode the "
                   "parent's flush guard is released only after the value is on its way); delay_flush stores the flush guard; closing the parent never waits: it returns data already received, else only a value the channel has delivered; wait_for_data stores the delivered value (what was stored stays), gives the receiver up, "
                   "and so keeps the representation invariant close relies on (never both stored data and a receiver). "
                   "NOT decided: that a value sent before the close is the one try_recv delivers and the cross-thread order between the guard's send, the release of its flush guard and the parent's close (tokio oneshot, Drop glue, keep_alive.rs).",
        level_note="Trusted: Verus + z3; tokio's oneshot as a stand-in (send consumes the sender and is witnessed by `sent`, try_recv never blocks and returns only `delivered` values); std::mem::replace; Rust drops a struct's fields after its Drop::drop returns. "
                   "Drop::drop and CloseValue::close are verified as inherent methods so that the type invariants (a live guard is Writable; a slot has data or a receiver) can be stated as preconditions. The async fns wait_for_data / wait_for_value are verified as ordinary fns "
                   "(rewrite RA: `rx.await` is a call returning the sent value or an error; `async` dropped): cancellation of the future between suspension points is not modelled. Slot's representation invariant is tried in two variants "
                   "(`exclusive`: never data and receiver at once, proved for new/open/wait_for_data and assumed by close; `open`: no invariant, close verified for every state); the unit passes if all obligations hold under one of them.",
        explanation="slot open / guard drop / close, sequential contracts",
        assumptions=["tokio oneshot: a value sent before try_recv is delivered by it; a dropped sender closes the channel", "field drop order (flush guard released after Drop::drop)"],
        unreached=["cancelling wait_for_data's future mid-way", "keep_alive.rs Guard / DropAll / Parent (Arc + Mutex + closure protocol)", "cross-thread interleavings"],
    ),
    "C14": dict(
        verus=[("emf_fresh", {}), ("emf_value", {}, ["write_metric_value"]), ("emf_finish", {})],
        technique="Verus: freshness obligation generated from the field list of the real struct State, discharged at the entry.write call of the extracted real format_with_multiplicity; write_metric_value contract independent of old counts_buf",
        level_text="Deductive proof (Verus/z3) that when the formatter hands control to the entry, every accumulating buffer and map of the formatter state is empty (prefix only) and the per-call writer is rebuilt from constants and the call's arguments, "
                   "for any prior state of the formatter (i.e. after any history of earlier entries, accepted or failed). The obligation is generated from the real struct's field list, so a new buffer without a clear fails it. "
                   "The two deferred buffers are covered by write_metric_value's contract (counts_buf) and a syntactic check on finish (dimensions_buf).",
        level_note="Trusted: PrefixedStringBuf::clear / hashbrown clear specs, EntryWriter::finish and the value writers only append to the buffers they are given (finish is not verified), "
                   "derive(Default) of ValidationErrorBuilder is 'no error'.",
        explanation="formatter state is fresh at the start of each entry",
        assumptions=["EntryWriter::finish only reads per-call state and clears dimensions_buf before use (syntactic check)", "configuration fields of State are never written during format (not proved)"],
        unreached=["EntryWriter::finish", "MetricsForDimensionSet::new"],
    ),
    "C15": dict(
        verus=[("wrappers", {}), ("boxed", {}), ("wrappers2", {}), ("forceflag", {}), ("dims", {}), ("fmtstream", {})],
        technique="Verus trait contracts (ghost item log / effect witnesses) on the extracted real forwarding impls: Merged, MergedRef, RootEntry, &T / Option / Box / Arc for Entry and InflectableEntry (write and sample_group), Cow for Entry, &T / Box / Arc / Cow for Value, every adapter method of the BoxEntry Dyn* bridge, ForceFlag's and the dimension wrappers' value-writer / value / entry-writer impls",
        level_text="Deductive proof (Verus/z3) that each wrapper's real write and sample_group bodies report exactly what its documented definition says: merged = first entry's items then second's (globals first), "
                   "references / Box / Arc / Cow (either variant: its Deref target) / RootEntry = the inner entry's items, an absent Option nothing - same for sample groups; plus a composition lemma for nested wrappers. "
                   "For the BoxEntry bridge: each of the 14 adapter methods (EntryWriterToDyn / EntryWriterFromDyn timestamp, value, config; ValueWriterToDyn / ValueWriterFromDyn string, metric, error; ValueToDyn::write; "
                   "DynEntry / BoxEntry sample_group) forwards exactly one call with the same content - for metric, the same observations and dimensions in the same order for any iterator argument "
                   "(size_hint is only a bound). ForceFlag<E>, WithDimensions<E, N> and WithGlobalDimensions<E, N> preserve the wrapped entry's sample group (their own sample_group, or the trait default instantiated when they do not define one). "
                   "ForceFlag: the value-writer wrapper forwards string / error unchanged and metric with exactly the same observations, unit and dimensions and the flag merged in (flags.try_merge(FLAGS::construct())); "
                   "ForceFlagEntryWriter forwards timestamp / config unchanged and every value wrapped so that its one call arrives with the flag forced. "
                   "Dimensions (per-value `Wrapper` in metrique-writer-core, ValueWriterWrapper / ValueWrapper / EntryWriterWrapper of WithGlobalDimensions): the value-writer wrappers forward string / error unchanged and metric with exactly the same "
                   "observations, unit and flags and the wrapper's dimensions appended AFTER the ones the value already had, in order; the entry-writer wrappers forward timestamp / config unchanged and every value under the same name "
                   "with that decoration - WithGlobalDimensions except on deny-listed names, which pass through undecorated; <WithDimensions as Value>::write decorates with exactly its own dimensions. "
                   "NOT reached: <WithDimensions / WithGlobalDimensions as Entry>::write (the one-line composition that wraps the caller's writer in the verified entry-writer wrapper) and <Option<T> as Value>::write.",
        level_note="Trusted: the trait-level contract 'an entry appends exactly items()' as the meaning of transparency; rewrites R14 (argument-position impl Trait as a named generic), R23 (return-position impl Iterator as an associated type / stand-in), "
                   "R24 ([].into_iter()), B1 (slice.iter().copied()), D2 (slice.iter().map(|(c, i)| (&**c, &**i)) -> one (&str, &str) per (Cow, Cow) pair, same text), D3 (&smallvec as a slice), R30 (unit tail expression made a statement), R31 (closure tuple-pattern parameter desugared to a `let`); std's Iterator (incl. map with the closure's contract and chain as concatenation) / IntoIterator / FromIterator / Into restated as traits over the element sequence; Verus + z3. "
                   "std::borrow::Cow is declared with its two real variants and an assumed Deref / as_ref (one target value). Three one-line compositions of the bridge are assumed, not proved: ValueFromDyn::write and BoxEntry::write (unsizing of `&mut T` to `&mut dyn Trait` is unsupported by this Verus) and <E as DynEntry>::write (needs a frame condition on the temporary adapter's inner reference).",
        explanation="forwarding wrappers and the boxed-entry bridge against ghost logs",
        assumptions=["every leaf Entry / Value implementation meets the trait contract (it is the definition of what the entry reports)",
                     "ValueFromDyn::write, BoxEntry::write and <E as DynEntry>::write (each a single forwarding call that wraps its argument in an adapter) meet the forwarding contract"],
        unreached=["BoxEntry::write / <E as DynEntry>::write / ValueFromDyn::write (assumed)", "<WithDimensions as Entry>::write / <WithGlobalDimensions as Entry>::write (one-line compositions over the verified wrappers)", "<ForceFlag as Entry>::write / EntryIoStream for ForceFlag (one-line compositions)", "Cow forwarding impls", "Option<T> as Value (negative fact)"],
    ),
    "C19": dict(
        kani=["core_unit"],
        technique="Kani proof harnesses on the real Convert::RATIO constants (all ordered pairs, against an independent scale table keyed on the emitted Unit), Convert::convert (all observations) and WithUnit::write",
        level_text="Kani/CBMC proof that for every ordered pair among the 20 bit/byte(/second) tags and the 3 time tags the conversion ratio is exactly scale(From)/scale(To) from an independent table keyed on the emitted unit, "
                   "that ratio x inverse ratio is within one ulp of 1, that the unitless tag converts with ratio 1, that convert multiplies the payload by that ratio exactly once for all observations (variant and occurrences preserved, "
                   "bit-identical when the ratio is 1), and that WithUnit emits the declared unit, rejects a value that wrote another unit than promised and rejects strings. The numeric product is only checked on a bounded sub-domain.",
        level_note="Trusted: CBMC float model / const evaluation; ValueWriter::invalid's message construction is overridden in the recording writer (format! cost). Duration -> fractional milliseconds and the #[metrics(unit=..)] attribute are not reached.",
        explanation="unit conversion constants and wrapper",
        assumptions=["float multiplication by the verified ratio is the intended rounding (IEEE)"],
        unreached=["Duration as fractional milliseconds (value/primitive.rs)", "AttachUnit in the macro", "distribution.rs Mean / Distribution"],
    ),
    "C20": dict(
        verus=[("mrs", {}), ("mrs_hist", {}), ("mrs_entry", {}), ("mrs_describe", {})],
        technique="Verus contracts on the real metrics.rs bridge readout (visitor callbacks rewritten to loops over the registered metrics) on the bridge's histogram cell (record, drain with closure contracts, midpoint), and on the readout entry's Entry::write with loop invariants over a ghost item log (plus its MultiObservation value)",
        level_text="Deductive proof (Verus/z3) of the sequential half of a readout, for any number of registered metrics: every registered counter is swapped to zero exactly once and the value swapped out is what the readout reports for it "
                   "(suppressed only when it is zero and zero counters are not emitted); every gauge is loaded once and reported as that bit pattern; every histogram is drained once and its buckets reported; the reported lists are "
                   "permutations of exactly these; the histogram cell's record is one add of the value with count 1, and its drain reports one Bucket{midpoint of the range, count} per non-empty bucket of the atomic snapshot, in order. "
                   "Writing a readout (for any numbers of counters, gauges, histograms): the timestamp if there is one, the split-entries configuration, then every counter, every gauge and every histogram exactly once, in that order - "
                   "each under its registered name, with its labels as dimensions in order, its described unit (the unit map's entry for that name, else Unit::None), no flags, and the observations [Unsigned(count)] / [Floating(value)] / "
                   "one Repeated{value x count, count} per bucket (no wrapping integer arithmetic). "
                   "describe_counter / describe_gauge / describe_histogram register the mapped unit under the key's name (they wait for the map's write lock and never skip the registration). "
                   "NOT decided: atomicity of swap / drain against concurrent updates (the property's interleaving quantifier), the metrics-rs -> metrique unit mapping (unit.rs), the reporter loop.",
        level_note="Trusted: Verus + z3; metrics-util's Registry visitors call their callback once per registered metric (rewrite V1 turns the three callbacks, which push into captured vectors, into loops over a stand-in iterator); AtomicU64::swap / load and "
                   "AtomicHistogram::drain are witnessed by predicates (linearizable atomics assumed); sort_by(key) is a permutation (V2); the `histogram` dependency as in C11. A bucket count is truncated to u32 by the code (more than 2^32 observations "
                   "in one bucket between two readouts would be under-reported): stated, not claimed. Entry::write: exact-text rewrites E1-E5 (Clone of an iterable keeps its elements, `.iter().cloned()`, the `const { .. }` configuration "
                   "object, `&Unit::None`, `buckets.iter()`), R3b, R14, R27, float casts opaque; the metrics.rs version shim's key_name / key_labels are a stand-in trait (a name converted into the writer's Cow<str> keeps its text).",
        explanation="metrics.rs bridge readout and histogram cell, sequential contracts",
        assumptions=["atomic swap(0) / drain are linearizable, so an increment lands in exactly one readout", "Registry::visit_* visits every registered metric exactly once"],
        unreached=["reporter task", "unit.rs mapping (metrics-rs unit -> metrique unit)"],
    ),
    "C17": dict(
        verus=[("globalsink", {"tl": "contract", "refute_with": [{"tl": "bare"}]}), ("globalguards", {})],
        technique="Verus contracts on the real routing functions inside the global_entry_sink! macro body (get_test_sink, try_sink, try_append, attach, set_test_sink_for_tokio_runtime, the thread-local set_test_sink), process-global state read and written through stand-in accessors",
        level_text="Deductive proof (Verus/z3), for every state of the four places a destination can be installed: an entry appended through a global sink goes to exactly one destination - the calling thread's test sink if one is installed, "
                   "otherwise the current runtime's test sink, otherwise the attached sink (the entry is moved into the one append) - and with none of these try_append hands the entry back unchanged; try_sink returns that same choice. "
                   "Attaching while a sink is attached, installing a runtime test sink on a runtime that has one, and installing a thread-local test sink on a thread that has one, never return normally (the documented panic, after the lock guard is released) and never overwrite what is installed "
                   "(the store / insert stand-ins carry `nothing is installed under this key` as a precondition); a first attach / install stores the given sink. "
                   "Handles and guards: dropping an attach handle runs its detach-and-join function exactly when it still holds one (a forgotten handle holds none); the thread-local guard's drop runs its clear function; "
                   "the runtime guard's drop removes exactly its own runtime's entry. "
                   "NOT decided: that the detach function installed by attach flushes before detaching (BackgroundQueue's join handle: C05), anything across threads or runtimes.",
        level_note="Trusted: Verus + z3. The functions are located inside the macro_rules! token tree and extracted verbatim; `$crate::__test_util! { .. }` is expanded to its argument (feature test-util on), and the five accessors of "
                   "process-global state (thread-local cell, tokio Handle::try_current, the per-runtime map behind a Mutex, the RwLock holding the attached sink) are rewritten (M2-M5, M8, exact text) to stand-ins that return one thread's snapshot; `panic!(..)` is rewritten to a call that never returns (M6, M9; Verus would demand unreachability), "
                   "`*write = Some((..))` to a store method carrying the no-overwrite obligation (M10), `$crate::` paths of the guard type dropped (M7).",
        explanation="global sink routing precedence",
        assumptions=["the accessors return what is installed at the moment of the call (one thread's view; no concurrent install / remove)"],
        unreached=["what the detach / clear function pointers do when called (set by the macro: SINK.write().take(), set_test_sink(None))", "without the test-util feature (the test-sink branch is compiled out)"],
    ),
    "C18": dict(
        verus=[("timers", {})],
        kani=["timers_shared"],
        technique="Verus single-step contracts on the extracted real TimerGuard / Stopwatch / Timer / MaybeGuardedDuration operations from an arbitrary state + inductive lemma over operation histories",
        level_text="Deductive proof (Verus/z3) that, from ANY state of a stopwatch in its exclusive representation, dropping a guard adds exactly the span the clock reported at its first stop (stop is idempotent), "
                   "discard adds nothing, overwrite clears the total before the span is added, clear empties it, close reports the accumulated total or nothing; that a timer's first stop fixes creation-to-now and later stops change nothing; "
                   "and an inductive lemma that for every operation history of any length the reported total is the sum of the non-discarded spans since the last clear/overwrite (absent if none). "
                   "The shared (owned-guard, Arc<Mutex>) representation is abstracted: its arms are left to a Kani group that is not part of this claim yet.",
        level_note="Trusted: the clock (Instant::elapsed returns an arbitrary duration, witnessed by `measured`), Duration as a number of nanoseconds with the stated no-overflow bounds, std Mutex stand-in with no specification, "
                   "closure contracts spliced at two closures, Drop runs exactly once at end of scope (overwrite = take then drop), R7, Verus + z3. Timestamps / time-source resolution are not reached.",
        explanation="stopwatch and timer step contracts + history induction",
        assumptions=["a guard's destructor runs exactly once when it goes out of scope", "durations stay below 2^80 ns per span and 2^112 ns in total"],
        unreached=["OwnedTimerGuard / SharedDuration (aliasing through Arc<Mutex>)", "Timestamp / TimestampOnClose / time source resolution order", "Stopwatch::start_owned, shared_cloned"],
    ),
}
