"""Unit `emf_validate` (C08): the validation automaton of the EMF entry writer, extracted from
metrique-writer-format-emf/src/emf.rs: EntryWriter::validate_name, EntryWriter::timestamp,
ValueWriter::validate_string, ValueWriter::string.

hashbrown's entry API is a trusted model over a ghost Map (entry_ref / OccupiedEntry::get_mut /
remove / VacantEntryRef::insert, with the mutable-reference prophecy threaded through), so that the
real `validate_string` body - including the `kind @ LineKind::UnfoundDimension` binding it assigns
through - is what gets verified.  The contract is the per-name automaton
    absent -> String,  UnfoundDimension -> String,  String / Metric -> error (map unchanged),
and its frame: no buffer of the formatter state is touched by validation (C08: validation never alters
accepted output)."""
from units import emf_value

NAME = "emf_validate"
OUTER = emf_value.OUTER
PROPERTIES = ["C08"]
EMF = "metrique-writer-format-emf/src/emf.rs"

_BUF = emf_value.PRELUDE[:emf_value.PRELUDE.index("// =============================== assumed: floats")]

PRELUDE = _BUF + r'''
broadcast use tok_axioms::axiom_tok_len_pos;
// ---- assumed: hashbrown::HashMap entry API over a ghost map keyed by the key's text ----------------
pub trait KeyView { spec fn kview(&self) -> Seq<char>; }
pub mod hashbrown {
    use vstd::prelude::*;
    use super::KeyView;
    #[verifier::external_body]
    #[verifier::reject_recursive_types(K)]
    #[verifier::reject_recursive_types(V)]
    pub struct HashMap<K, V> { p: core::marker::PhantomData<(K, V)> }
    impl<K, V> HashMap<K, V> {
        pub uninterp spec fn view(&self) -> Map<Seq<char>, V>;
        #[verifier::external_body]
        pub fn entry_ref<'a, 'b, Q: KeyView>(&'a mut self, key: &'b Q) -> (r: EntryRef<'a, K, V>)
            ensures
                match r {
                    EntryRef::Occupied(o) => old(self)@.contains_key(key.kview()) && o.key@ == key.kview() && *o.map == *old(self) && *final(o.map) == *final(self),
                    EntryRef::Vacant(v) => !old(self)@.contains_key(key.kview()) && v.key@ == key.kview() && *v.map == *old(self) && *final(v.map) == *final(self),
                }
        { unimplemented!() }
    }
    #[verifier::reject_recursive_types(K)]
    #[verifier::reject_recursive_types(V)]
    pub struct OccupiedEntry<'a, K, V> { pub map: &'a mut HashMap<K, V>, pub key: Ghost<Seq<char>> }
    #[verifier::reject_recursive_types(K)]
    #[verifier::reject_recursive_types(V)]
    pub struct VacantEntryRef<'a, K, V> { pub map: &'a mut HashMap<K, V>, pub key: Ghost<Seq<char>> }
    #[verifier::reject_recursive_types(K)]
    #[verifier::reject_recursive_types(V)]
    pub enum EntryRef<'a, K, V> { Occupied(OccupiedEntry<'a, K, V>), Vacant(VacantEntryRef<'a, K, V>) }
    impl<'a, K, V> OccupiedEntry<'a, K, V> {
        #[verifier::external_body]
        pub fn get_mut(&mut self) -> (v: &mut V)
            ensures *v == old(self).map@[old(self).key@],
                    final(self).key == old(self).key,
                    *final(final(self).map) == *final(old(self).map),
                    final(self).map@ == old(self).map@.insert(old(self).key@, *final(v)),
        { unimplemented!() }
        #[verifier::external_body]
        pub fn get(&self) -> (v: &V)
            ensures *v == old(self.map)@[self.key@],
        { unimplemented!() }
        #[verifier::external_body]
        pub fn remove(self) -> (v: V)
            ensures v == old(self.map)@[self.key@], final(self.map)@ == old(self.map)@.remove(self.key@),
        { unimplemented!() }
        #[verifier::external_body]
        pub fn insert(&mut self, value: V) -> (v: V)
            ensures v == old(self).map@[old(self).key@],
                    final(self).key == old(self).key,
                    *final(final(self).map) == *final(old(self).map),
                    final(self).map@ == old(self).map@.insert(old(self).key@, value),
        { unimplemented!() }
    }
    impl<'a, K, V> VacantEntryRef<'a, K, V> {
        #[verifier::external_body]
        pub fn insert(self, value: V)
            ensures final(self.map)@ == old(self.map)@.insert(self.key@, value),
        { unimplemented!() }
    }
}
pub use hashbrown::EntryRef;

// ---- the name: SCow(Cow<str>) is opaque; its text is its view --------------------------------------
#[verifier::external_body] pub struct SCow<'a> { p: core::marker::PhantomData<&'a ()> }
impl<'a> SCow<'a> { pub uninterp spec fn view(&self) -> Seq<char>; }
impl<'a> KeyView for SCow<'a> { open spec fn kview(&self) -> Seq<char> { self@ } }
impl<'a> core::ops::Deref for SCow<'a> {
    type Target = str;
    #[verifier::external_body] fn deref(&self) -> (r: &str) ensures r@ == self@ { unimplemented!() }
}
pub mod bit_set {
    use vstd::prelude::*;
    #[verifier::external_body]
    #[verifier::reject_recursive_types(T)]
    pub struct BitSet<T> { p: core::marker::PhantomData<T> }
}

// ---- validation errors: a ghost list of recorded failures ------------------------------------------
pub struct ValidationError { pub e: u8 }
impl ValidationError {
    #[verifier::external_body] pub fn invalid(reason: &str) -> ValidationError { unimplemented!() }
    #[verifier::external_body] pub fn for_field(self, name: &str) -> ValidationError { unimplemented!() }
}
#[verifier::external_body] pub struct ValidationErrorBuilder { p: u8 }
impl ValidationErrorBuilder {
    pub uninterp spec fn count(&self) -> nat;     // number of recorded validation failures
    #[verifier::external_body]
    pub fn extend_mut(&mut self, error: ValidationError) -> (r: &mut Self)
        ensures final(r).count() == final(self).count(), r.count() == old(self).count() + 1,
    { unimplemented!() }
    #[verifier::external_body]
    pub fn invalid_mut(&mut self, reason: &str) -> (r: &mut Self)
        ensures final(r).count() == final(self).count(), r.count() == old(self).count() + 1,
    { unimplemented!() }
}
// ---- opaque configuration / helper types of emf.rs -------------------------------------------------
#[verifier::external_body] pub struct JsonEncodedString { p: u8 }
#[verifier::external_body] pub struct JsonEncodedArray { p: u8 }
#[verifier::external_body] pub struct LogGroupNameAndTimestampString { p: u8 }
#[verifier::external_body] pub struct DimensionSet { p: u8 }
#[verifier::external_body] pub struct MetricsForDimensionSet { p: u8 }
#[verifier::external_body] #[derive(Clone, Copy)] pub struct SystemTime { p: u8 }

pub assume_specification<T>[ std::option::Option::<T>::replace ](o: &mut std::option::Option<T>, v: T) -> (r: std::option::Option<T>)
    ensures r == *old(o), *final(o) == Some(v);
pub open spec fn is_written(k: LineKind) -> bool { k is String || k is Metric }
'''

ITEMS = [
    dict(kind="struct", file=EMF, name="LineKind"),
    dict(kind="struct", file=EMF, name="LineData"),
    dict(kind="struct", file=EMF, name="Validation"),
    dict(kind="struct", file=EMF, name="State"),
    dict(kind="struct", file=EMF, name="EntryWriter"),
    dict(kind="struct", file=EMF, name="ValueWriter"),
    dict(kind="fn", file=EMF, impl=r"^impl EntryWriter < '_ >$", name="validate_name", ret="r", label="EntryWriter::validate_name",
         ensures="""
            // names are rejected exactly when they are empty or the reserved `_aws`, and only if names are validated
            r == (old(self).validations.skip_validate_names || !(name@.len() == 0 || name@ == "_aws"@)),
            r ==> final(self).error.count() == old(self).error.count(),
            !r ==> final(self).error.count() == old(self).error.count() + 1,
            // frame: validation never touches the formatter state
            *final(self).state == *old(self).state, final(self).validation_map@ == old(self).validation_map@,
         """),
    dict(kind="fn", file=EMF, impl=r"^impl ValueWriter < '_ , '_ >$", name="validate_string", label="ValueWriter::validate_string",
         ensures="""
            final(self).name@ == old(self).name@,
            // the per-name automaton (C08: no record ever has two members with the same name)
            !old(self).entry.validation_map@.contains_key(old(self).name@)
                ==> final(self).entry.error.count() == old(self).entry.error.count()
                    && final(self).entry.validation_map@ =~= old(self).entry.validation_map@.insert(old(self).name@, LineData { kind: LineKind::String }),   // OBL string_first_write_recorded
            (old(self).entry.validation_map@.contains_key(old(self).name@) && old(self).entry.validation_map@[old(self).name@].kind is UnfoundDimension)
                ==> final(self).entry.error.count() == old(self).entry.error.count()
                    && final(self).entry.validation_map@ =~= old(self).entry.validation_map@.insert(old(self).name@, LineData { kind: LineKind::String }),   // OBL dimension_supplied_is_recorded_as_written
            (old(self).entry.validation_map@.contains_key(old(self).name@) && is_written(old(self).entry.validation_map@[old(self).name@].kind))
                ==> final(self).entry.error.count() == old(self).entry.error.count() + 1
                    && final(self).entry.validation_map@ =~= old(self).entry.validation_map@,                                                            // OBL second_write_is_rejected
            // frame
            *final(self).entry.state == *old(self).entry.state,
         """),
    dict(kind="fn", file=EMF, impl=r"^impl < 'a > metrique_writer_core :: EntryWriter < 'a > for EntryWriter < 'a >$", name="timestamp", label="EntryWriter::timestamp",
         impl_header_override="impl<'a> EntryWriter<'a>",
         ensures="""
            // a second timestamp is a validation error; the first one is simply recorded
            final(self).error.count() == old(self).error.count() + (if old(self).timestamp is Some { 1nat } else { 0nat }),   // OBL second_timestamp_rejected
            final(self).timestamp is Some,
            *final(self).state == *old(self).state, final(self).validation_map@ == old(self).validation_map@,
         """),
    dict(kind="fn", file=EMF, impl=r"^impl metrique_writer_core :: ValueWriter for ValueWriter < '_ , '_ >$", name="string", label="ValueWriter::string",
         impl_header_override="impl ValueWriter<'_, '_>", rules={"R7": 1},
         proofs=[("end", "", """proof {
                // the member is appended exactly once, to the string-fields buffer only (escaped name, escaped value)...
                assert(__s.entry.state.string_fields_buf.all() =~= verif_sf0 + seq![Tok::Ch(','), Tok::JStr(__s.name@), Tok::Ch(':'), Tok::JStr(value@)]);   // OBL string_member_appended_once
                // ...and the uniqueness check runs exactly when unique-name validation is on
                assert(verif_skip ==> __s.entry.validation_map@ =~= verif_vm0 && __s.entry.error.count() == verif_e0);   // OBL switch_only_gates_the_check
                assert((!verif_skip && verif_vm0.contains_key(__s.name@) && is_written(verif_vm0[__s.name@].kind))
                       ==> __s.entry.error.count() == verif_e0 + 1);                                                                                     // OBL duplicate_string_rejected
             }"""),
                 ("before", "__s . entry . state . string_fields_buf", "let ghost verif_sf0 = __s.entry.state.string_fields_buf.all(); let ghost verif_vm0 = __s.entry.validation_map@; let ghost verif_e0 = __s.entry.error.count(); let ghost verif_skip = __s.entry.validations.skip_validate_unique;", 0)]),
]
POSTLUDE = r'''
// ---- histories: every name is accepted as a string member at most once ---------------------------
// abstract automaton of one name under validate_string
pub enum NameSt { Absent, Unfound, Written }
pub open spec fn vs_step(s: NameSt) -> (NameSt, bool) {   // (new state, error recorded)
    match s { NameSt::Absent => (NameSt::Written, false), NameSt::Unfound => (NameSt::Written, false), NameSt::Written => (NameSt::Written, true) }
}
pub open spec fn vs_errors(s: NameSt, n: nat) -> nat decreases n {
    if n == 0 { 0 } else { (if vs_step(s).1 { 1nat } else { 0nat }) + vs_errors(vs_step(s).0, (n - 1) as nat) }
}
// n writes under one name record exactly n-1 errors (n >= 1): at most one of them is ever accepted
pub proof fn lemma_at_most_one_accepted(s: NameSt, n: nat)
    requires n >= 1,
    ensures vs_errors(s, n) == (if s is Written { n } else { (n - 1) as nat }),
    decreases n
{
    if n > 1 { lemma_at_most_one_accepted(vs_step(s).0, (n - 1) as nat); }
    else { assert(vs_errors(vs_step(s).0, 0) == 0); }
}
'''
CANARY = dict(fn="EntryWriter::timestamp", replace=("final(self).timestamp is Some,", "final(self).timestamp is None,"))
