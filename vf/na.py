"""Properties not claimed, with the reason (kept in sync with DESIGN.md section 10).
Entries for properties that are claimed in registry.PROPS are ignored by mkmanifest."""
PENDING = "not claimed yet in this build session: the unit planned for it in DESIGN.md section 4 has not been built/validated"
NOT_APPLICABLE = {
    "C01": PENDING, "C02": PENDING, "C03": PENDING, "C05": PENDING, "C08": PENDING, "C09": PENDING,
    "C11": PENDING, "C12": PENDING, "C14": PENDING, "C15": PENDING, "C16": PENDING, "C18": PENDING, "C19": PENDING,
    "C06": "the guarantee is the cross-thread order in which Arc/guard references are released (Drop + reference counts); Verus models neither, Kani has no threads and did not finish even 4 sequential symbolic drop steps",
    "C07": "quantifies over programs given to a proc macro; no installed deductive verifier takes token streams as symbolic input and the inflection lives in a dependency",
    "C10": "conservation is over histories of a hashbrown raw-entry map and macro-generated Merge/Key impls; flush completion and termination are properties of a closure inside thread::spawn; none is addressable by a function contract here",
    "C13": "decided by tokio::oneshot send vs. flush-guard release order inside a destructor racing with the parent's close on another thread",
    "C17": "the routing code is the body of a macro_rules! over a static RwLock, a thread-local and a per-runtime map; histories span threads and runtimes",
    "C20": "exactly-once accounting rests on the atomicity of swap(0)/drain against concurrent updates; there is no sequential function whose contract carries it",
}
