"""Unit `emf_cfg` (C08): the validation switches of the EMF formatter, for both build profiles.
Extracted from metrique-writer-format-emf/src/emf.rs: struct Validation, struct EmfBuilder,
Emf::builder (R4: cfg(debug_assertions) resolved per profile), Emf::all_validations,
Emf::no_validations, EmfBuilder::skip_all_validations (R6 x3, R7)."""

NAME = "emf_cfg"
PROPERTIES = ["C08"]
EMF = "metrique-writer-format-emf/src/emf.rs"

_PRELUDE = r'''
// Emf is abstracted to its validation switches; EmfBuilder::build is NOT verified (hash maps,
// iterator adapters, format!): its contract "the switches are forwarded unchanged" is assumed and
// additionally checked syntactically on the real body (struct literal `validation: self.validation`).
pub struct Emf { pub validation: Validation }
impl EmfBuilder {
    #[verifier::external_body]
    pub fn build(self) -> (r: Emf)
        ensures r.validation == self.validation,
    { unimplemented!() }
}
pub open spec fn all_on(v: Validation) -> bool {
    !v.skip_validate_unique && !v.skip_validate_dimensions_exist && !v.skip_validate_names
}
pub open spec fn all_off(v: Validation) -> bool {
    v.skip_validate_unique && v.skip_validate_dimensions_exist && v.skip_validate_names
}
'''

ITEMS = [
    dict(kind="struct", file=EMF, name="Validation", keep_derive=False),
    dict(kind="raw", label="Validation::default (derive(Default) on three bools)", text="""
impl Validation {
    // #[derive(Default)] on a struct of three bools: all false (assumed: std derive semantics)
    #[verifier::external_body]
    pub fn default() -> (r: Validation)
        ensures !r.skip_validate_unique, !r.skip_validate_dimensions_exist, !r.skip_validate_names,
    { unimplemented!() }
}
"""),
    dict(kind="struct", file=EMF, name="EmfBuilder"),
    dict(kind="fn", file=EMF, impl=r"^impl Emf$", name="builder", ret="r",
         profile_sensitive=True, rules_by_profile={True: {"R4": 2}, False: {"R4": 2}},
         requires="""
            default_dimensions@.len() > 0,   // the documented panic (assert!) is the precondition
         """,
         ensures="""
            // documented: validations default to on exactly when debug assertions are on
            verif_profile_debug() ==> all_on(r.validation),
            !verif_profile_debug() ==> all_off(r.validation),
         """),
    dict(kind="fn", file=EMF, impl=r"^impl Emf$", name="all_validations", ret="r",
         requires="default_dimensions@.len() > 0,",
         ensures="""
            // C08: every validation is on, in every build profile
            all_on(r.validation),   // OBL all_validations_enables_everything
         """),
    dict(kind="fn", file=EMF, impl=r"^impl Emf$", name="no_validations", ret="r",
         requires="default_dimensions@.len() > 0,",
         ensures="""
            all_off(r.validation),
         """),
    dict(kind="fn", file=EMF, impl=r"^impl EmfBuilder$", name="allow_ignored_dimensions", ret="r",
         ensures="""
            // C08: the ignore-dimensions option is exactly what was configured last (not sticky), nothing else is touched
            r.allow_ignored_dimensions == allow,                                   // OBL ignore_dimensions_is_the_last_setting
            r.validation == self.validation, r.default_dimensions == self.default_dimensions, r.namespaces == self.namespaces,
            r.extra_directives == self.extra_directives, r.log_group_name == self.log_group_name,
         """),
    dict(kind="fn", file=EMF, impl=r"^impl EmfBuilder$", name="skip_all_validations", ret="r",
         rules={"R6": 3, "R7": 1},
         ensures="""
            // monotone: can only turn validations off, never on; everything else untouched
            r.validation.skip_validate_unique == (self.validation.skip_validate_unique || skip),
            r.validation.skip_validate_dimensions_exist == (self.validation.skip_validate_dimensions_exist || skip),
            r.validation.skip_validate_names == (self.validation.skip_validate_names || skip),
            r.default_dimensions == self.default_dimensions, r.namespaces == self.namespaces,
            r.extra_directives == self.extra_directives, r.allow_ignored_dimensions == self.allow_ignored_dimensions,
            r.log_group_name == self.log_group_name,
         """),
]


def PRELUDE(variant):
    return _PRELUDE + "\npub open spec fn verif_profile_debug() -> bool { %s }\n" % ("true" if variant.get("profile_debug") else "false")


POSTLUDE = r'''
'''
CANARY = dict(fn="no_validations", replace=("all_off(r.validation)", "all_on(r.validation)"))
REPLAY = "emf_cfg"
SYNTACTIC = [
    dict(file=EMF, impl=r"^impl EmfBuilder$", fn="build", ordered=["validation : self . validation ,"],
         absent=["self . validation ."], why="EmfBuilder::build forwards the validation switches unchanged"),
]
