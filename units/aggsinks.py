"""Unit `aggsinks` (C10): the small sinks and guards around the aggregators (metrique-aggregation/src/sink.rs, aggregator.rs):
MergeOnDrop / CloseAndMergeOnDrop (their Drop::drop, verified as inherent methods), TeeSink::{merge, flush},
NonAggregatedSink::merge, and the embedded single Aggregate<T>::{merge, merge_ref, insert, insert_direct}.

Proved: a guard hands its value (closed, for CloseAndMergeOnDrop) to the target sink exactly when it still holds one, and holds none
afterwards; the tee hands every entry to BOTH sinks (by reference to the first, by value to the second) and flushes both; the
non-aggregating sink appends the entry, rooted; the embedded aggregate merges every input into its one accumulator."""

NAME = "aggsinks"
PROPERTIES = ["C10"]
S = "metrique-aggregation/src/sink.rs"
A = "metrique-aggregation/src/aggregator.rs"

PRELUDE = r'''
pub uninterp spec fn ghost_id<T>(t: T) -> int;
pub trait CloseValue: Sized { type Closed; spec fn closed(self) -> Self::Closed; fn close(self) -> (r: Self::Closed) ensures r == self.closed(); }
pub trait Merge: Sized {
    type Merged;
    spec fn inputs(m: &Self::Merged) -> Seq<int>;     // ghost: which inputs have been merged into this aggregate, in order
    fn merge(accum: &mut Self::Merged, input: Self) ensures Self::inputs(final(accum)) == Self::inputs(old(accum)).push(ghost_id(input));
}
pub trait MergeRef: Merge {
    fn merge_ref(accum: &mut Self::Merged, input: &Self) ensures Self::inputs(final(accum)) == Self::inputs(old(accum)).push(ghost_id(*input));
}
pub struct NoKey {}
pub type AggregateMustBeUsedOnStructsWithNoKeys = NoKey;
pub trait AggregateStrategy {
    type Source: Merge;
    type Key;
}
// a thread-safe entry point takes &self: its effect is witnessed by a predicate only the call can establish
pub uninterp spec fn root_merged<S: ?Sized>(sink: &S, entry: int) -> bool;
pub trait RootSink<T> { fn merge(&self, entry: T) ensures root_merged(self, ghost_id(entry)); }
pub trait AggregateSink<T> {
    spec fn got(&self) -> Seq<int>;      // ghost log of the entries merged by value
    fn merge(&mut self, entry: T) ensures final(self).got() == old(self).got().push(ghost_id(entry));
}
pub trait AggregateSinkRef<T> {
    spec fn got_ref(&self) -> Seq<int>;  // ghost log of the entries merged by reference
    fn merge_ref(&mut self, entry: &T) ensures final(self).got_ref() == old(self).got_ref().push(ghost_id(*entry));
}
pub trait FlushableSink {
    spec fn flushes(&self) -> nat;
    fn flush(&mut self) ensures final(self).flushes() == old(self).flushes() + 1;
}
pub trait InflectableEntry {}
pub struct RootEntry<E> { pub inner: E }
impl<E> RootEntry<E> { pub fn new(e: E) -> (r: Self) ensures r.inner == e { RootEntry { inner: e } } }
pub uninterp spec fn was_appended<S: ?Sized, E>(sink: &S, entry: E) -> bool;
pub trait EntrySink<E> { fn append(&self, entry: E) ensures was_appended(self, entry); }
'''

ITEMS = [
    dict(kind="struct", file=S, name="MergeOnDrop", attrs=["#[verifier::reject_recursive_types(T)]", "#[verifier::reject_recursive_types(Sink)]"]),
    dict(kind="fn", file=S, impl=r"^impl < T , Sink > Drop for MergeOnDrop < T , Sink > where", name="drop", label="MergeOnDrop::drop",
         impl_header_override="impl<T: AggregateStrategy<Source = T>, Sink: RootSink<T>> MergeOnDrop<T, Sink>",
         ensures="""
            // C10: dropping the guard hands the value it holds to the target sink (once: it holds none afterwards)
            old(self).value is Some ==> root_merged(&old(self).target, ghost_id(old(self).value->0)),        // OBL merge_on_drop_hands_the_value_over
            final(self).value is None,
         """),
    dict(kind="struct", file=S, name="CloseAndMergeOnDrop", attrs=["#[verifier::reject_recursive_types(T)]", "#[verifier::reject_recursive_types(Sink)]"]),
    dict(kind="fn", file=S, impl=r"^impl < T , Sink > Drop for CloseAndMergeOnDrop < T , Sink > where", name="drop", label="CloseAndMergeOnDrop::drop",
         impl_header_override="impl<T: CloseValue, Sink: RootSink<T::Closed>> CloseAndMergeOnDrop<T, Sink>",
         ensures="""
            old(self).value is Some ==> root_merged(&old(self).target, ghost_id(old(self).value->0.closed())),    // OBL close_and_merge_on_drop_hands_the_closed_value_over
            final(self).value is None,
         """),
    dict(kind="struct", file=S, name="TeeSink", attrs=["#[verifier::reject_recursive_types(T)]", "#[verifier::reject_recursive_types(U)]"]),
    dict(kind="fn", file=S, impl=r"^impl < T , A , B > AggregateSink < T > for TeeSink < A , B > where", name="merge", label="TeeSink::merge",
         impl_extra="    open spec fn got(&self) -> Seq<int> { <B as AggregateSink<T>>::got(&self.sink_owned) }\n",
         ensures="""
            // C10: the tee hands every entry to BOTH sinks
            <A as AggregateSinkRef<T>>::got_ref(&final(self).sink_by_ref) == <A as AggregateSinkRef<T>>::got_ref(&old(self).sink_by_ref).push(ghost_id(entry)),   // OBL tee_first_sink_gets_the_entry
         """),
    dict(kind="fn", file=S, impl=r"^impl < A , B > FlushableSink for TeeSink < A , B > where", name="flush", label="TeeSink::flush",
         impl_extra="    open spec fn flushes(&self) -> nat { self.sink_owned.flushes() }\n",
         ensures="final(self).sink_by_ref.flushes() == old(self).sink_by_ref.flushes() + 1,      // OBL tee_flushes_both_sinks"),
    dict(kind="struct", file=S, name="NonAggregatedSink", attrs=["#[verifier::reject_recursive_types(T)]"]),
    dict(kind="fn", file=S, impl=r"^impl < E , T > AggregateSink < E > for NonAggregatedSink < T > where", name="merge", label="NonAggregatedSink::merge",
         # verified as an inherent method: the wrapped EntrySink takes &self, so "the entry went out" is a witness, not a log
         impl_header_override="impl<T> NonAggregatedSink<T>",
         sig_replace=[("fn merge(", "pub fn merge<E: InflectableEntry>("), ("entry: E)", "entry: E) where T: EntrySink<RootEntry<E>>")],
         ensures="was_appended(&old(self).0, RootEntry { inner: entry }),      // OBL non_aggregated_sink_appends_the_rooted_entry"),
    dict(kind="struct", file=A, name="Aggregate", attrs=["#[verifier::reject_recursive_types(T)]"]),
    dict(kind="fn", file=A, impl=r"^impl < T > AggregateSink < T :: Source > for Aggregate < T > where", name="merge", label="Aggregate::merge",
         impl_extra="    open spec fn got(&self) -> Seq<int> { <T::Source as Merge>::inputs(&self.aggregated) }\n"),
    dict(kind="fn", file=A, impl=r"^impl < T > AggregateSinkRef < T :: Source > for Aggregate < T > where", name="merge_ref", label="Aggregate::merge_ref",
         impl_extra="    open spec fn got_ref(&self) -> Seq<int> { <T::Source as Merge>::inputs(&self.aggregated) }\n"),
    dict(kind="fn", file=A, impl=r"^impl < T : AggregateStrategy > Aggregate < T >$", name="insert", label="Aggregate::insert",
         ensures="<T::Source as Merge>::inputs(&final(self).aggregated) == <T::Source as Merge>::inputs(&old(self).aggregated).push(ghost_id(entry.closed())),   // OBL aggregate_insert_merges_the_closed_entry"),
    dict(kind="fn", file=A, impl=r"^impl < T : AggregateStrategy > Aggregate < T >$", name="insert_direct", label="Aggregate::insert_direct",
         ensures="<T::Source as Merge>::inputs(&final(self).aggregated) == <T::Source as Merge>::inputs(&old(self).aggregated).push(ghost_id(entry)),   // OBL aggregate_insert_direct_merges_the_entry"),
]
POSTLUDE = ""
CANARY = dict(fn="MergeOnDrop::drop", replace=("final(self).value is None,", "final(self).value is Some,"))
