"""Shared machinery for native replay searches: scratch copy of the working tree + one injected test file."""
import os
import re
import shutil
import subprocess
import tempfile

ROOT = os.path.dirname(os.path.dirname(os.path.abspath(__file__)))
TARGET_CACHE = os.environ.get("VERIF_TARGET_CACHE", "/tmp/verif_target_cache")


def run_native(repo, crate_dir, test_name, test_src_path, log, timeout=1500, features=None, release=False):
    scratch = tempfile.mkdtemp(prefix="verif_replay_")
    try:
        subprocess.check_call(["rsync", "-a", "--exclude", "target", "--exclude", ".git", repo.rstrip("/") + "/", scratch + "/"])
        tdir = os.path.join(scratch, crate_dir, "tests")
        os.makedirs(tdir, exist_ok=True)
        shutil.copy(test_src_path, os.path.join(tdir, test_name + ".rs"))
        env = dict(os.environ, CARGO_NET_OFFLINE="true", CARGO_TARGET_DIR=TARGET_CACHE)
        cmd = ["cargo", "test", "--offline", "--manifest-path", os.path.join(scratch, crate_dir, "Cargo.toml"),
               "--test", test_name]
        if release:
            cmd.append("--release")
        if features:
            cmd += ["--features", features]
        cmd += ["--", "--nocapture", "--test-threads", "1"]
        log("  replay search: %s" % " ".join(cmd))
        p = subprocess.run(cmd, cwd=scratch, env=env, stdout=subprocess.PIPE, stderr=subprocess.STDOUT, text=True, timeout=timeout)
        out = p.stdout
        m = re.search(r"FAILING_INPUT: (.*)$", out, re.M)
        f = re.search(r"FAILURE: (.*)$", out, re.M)
        searched = re.search(r"SEARCHED: (.*)$", out, re.M)
        return {"rc": p.returncode, "failing_input": m.group(1) if m else None, "failure": f.group(1) if f else None,
                "searched": searched.group(1) if searched else None, "tail": out[-3000:], "cmd": " ".join(cmd)}
    finally:
        shutil.rmtree(scratch, ignore_errors=True)
