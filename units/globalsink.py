"""Unit `globalsink` (C17): the routing precedence of a global entry sink - the functions get_test_sink, try_sink and try_append
inside the body of `macro_rules! global_entry_sink` (metrique-writer-core/src/global.rs), with the test-util feature on.

The macro body is ordinary Rust apart from `$crate` / `$name`; the extractor finds the functions inside the macro's token tree
(`inside_macro`).  Process-global state is read through five accessors that are rewritten to stand-ins returning a snapshot
(one thread's view): the thread-local test sink, the current tokio runtime, the per-runtime test-sink map, and the attached sink.
Proved: an entry goes to exactly one destination - the thread's test sink if installed, otherwise the current runtime's test sink,
otherwise the attached sink; with none of these try_append hands the entry back unchanged; try_sink returns the same choice.
NOT decided: attach / guards (install, restore on drop, panics), anything across threads or runtimes."""
import re

NAME = "globalsink"
PROPERTIES = ["C17"]
G = "metrique-writer-core/src/global.rs"
_M = "macro_rules ! global_entry_sink"


def m1_test_util(text):
    """M1: $crate::__test_util! { BODY }  ->  { BODY }   (feature test-util on: the macro expands to its argument)"""
    n = len(re.findall(r"\$crate::__test_util!\s*\{", text))
    return re.sub(r"\$crate::__test_util!\s*\{", "{", text), n


def _stmt(name, old, new, doc):
    def f(text):
        n = text.count(old)
        return text.replace(old, new), n
    f.__name__ = name
    f.__doc__ = doc
    return f


m2 = _stmt("m2_try_current", "$crate::__tokio::runtime::Handle::try_current()", "verif_tokio_try_current()", "M2: the current tokio runtime handle, if any")
m3 = _stmt("m3_thread_local", "THREAD_LOCAL_TEST_SINK.with(|cell| cell.borrow().clone())", "verif_thread_local_test_sink()", "M3: a clone of the thread-local test sink")
m4 = _stmt("m4_runtime_sinks", "runtime_sinks().lock().unwrap()", "verif_runtime_sinks()", "M4: the locked per-runtime test-sink map")
m5 = _stmt("m5_sink_read", "SINK.read().unwrap()", "verif_sink_read()", "M5: read access to the attached sink")

PRELUDE = r'''
pub trait Entry {}
pub struct VerifGlobal {}
pub uninterp spec fn ghost_id<E>(e: E) -> int;
#[verifier::external_body] pub struct BoxEntrySink { _p: u8 }
pub uninterp spec fn appended_to(s: BoxEntrySink, entry: int) -> bool;
impl BoxEntrySink {
    #[verifier::external_body]
    pub fn append<E: Entry + Send + 'static>(&self, entry: E) ensures appended_to(*self, ghost_id(entry)) { unimplemented!() }
}
impl Clone for BoxEntrySink { #[verifier::external_body] fn clone(&self) -> (r: BoxEntrySink) ensures r == *self { unimplemented!() } }
#[verifier::external_body] pub struct Handle { _p: u8 }
#[verifier::external_body] pub struct AnyHandle { _p: u8 }

// ---- one thread's view of the process-global state (assumed: the accessors return what is installed right now) -----------
#[verifier::external_body] #[derive(Clone, Copy)] pub struct RuntimeId { _p: u8 }
pub uninterp spec fn tl_sink() -> Option<BoxEntrySink>;                 // thread-local test sink
pub uninterp spec fn in_runtime() -> Option<RuntimeId>;                 // the tokio runtime this thread runs in
pub uninterp spec fn rt_sinks() -> Map<RuntimeId, BoxEntrySink>;        // test sinks installed per runtime
pub uninterp spec fn attached() -> Option<BoxEntrySink>;                // the attached (production) sink
#[verifier::external_body] pub struct RtHandle { _p: u8 }
impl RtHandle {
    pub uninterp spec fn rid(&self) -> RuntimeId;
    #[verifier::external_body] pub fn id(&self) -> (r: RuntimeId) ensures r == self.rid() { unimplemented!() }
}
#[verifier::external_body]
pub fn verif_tokio_try_current() -> (r: Result<RtHandle, ()>)
    ensures (r is Ok) == (in_runtime() is Some), r is Ok ==> r->Ok_0.rid() == in_runtime()->0
{ unimplemented!() }
#[verifier::external_body]
pub fn verif_thread_local_test_sink() -> (r: Option<BoxEntrySink>) ensures r == tl_sink() { unimplemented!() }
#[verifier::external_body] pub struct RtMapGuard { _p: u8 }
impl RtMapGuard {
    #[verifier::external_body]
    pub fn get(&self, id: &RuntimeId) -> (r: Option<&BoxEntrySink>)
        ensures (r is Some) == rt_sinks().contains_key(*id), r is Some ==> *r->0 == rt_sinks()[*id]
    { unimplemented!() }
}
#[verifier::external_body] pub fn verif_runtime_sinks() -> RtMapGuard { unimplemented!() }
#[verifier::external_body] pub struct SinkReadGuard { _p: u8 }
impl SinkReadGuard {
    #[verifier::external_body]
    pub fn as_ref(&self) -> (r: Option<&(BoxEntrySink, AnyHandle)>)
        ensures (r is Some) == (attached() is Some), r is Some ==> (r->0).0 == attached()->0
    { unimplemented!() }
}
#[verifier::external_body] pub fn verif_sink_read() -> SinkReadGuard { unimplemented!() }

// C17: the destination, by fixed precedence
pub open spec fn test_sink_now() -> Option<BoxEntrySink> {
    if tl_sink() is Some { tl_sink() }
    else if in_runtime() is Some && rt_sinks().contains_key(in_runtime()->0) { Some(rt_sinks()[in_runtime()->0]) }
    else { None }
}
pub open spec fn destination() -> Option<BoxEntrySink> {
    if test_sink_now() is Some { test_sink_now() } else { attached() }
}
'''

_IMPL = r"^impl AttachGlobalEntrySink for \$ name$"

ITEMS = [
    dict(kind="fn", file=G, inside_macro=_M, impl=None, name="get_test_sink", ret="r", label="get_test_sink",
         rules={"m2_try_current": 1, "m3_thread_local": 1, "m4_runtime_sinks": 1}, pre_rewrites=[m2, m3, m4],
         ensures="r == test_sink_now(),     // OBL test_sink_precedence_thread_then_runtime"),
    dict(kind="fn", file=G, inside_macro=_M, impl=_IMPL, name="try_sink", ret="r", label="try_sink",
         impl_header_override="impl VerifGlobal",
         rules={"m1_test_util": 1, "m5_sink_read": 1}, pre_rewrites=[m1_test_util, m5],
         ensures="r == destination(),       // OBL try_sink_returns_the_destination"),
    dict(kind="fn", file=G, inside_macro=_M, impl=_IMPL, name="try_append", ret="r", label="try_append",
         impl_header_override="impl VerifGlobal",
         rules={"m1_test_util": 1, "m5_sink_read": 1}, pre_rewrites=[m1_test_util, m5],
         ensures="""
            // C17: exactly one destination, by fixed precedence; with none the entry is handed back unchanged
            destination() is Some ==> r is Ok && appended_to(destination()->0, ghost_id(entry)),            // OBL entry_goes_to_the_destination
            destination() is None ==> r == Err::<(), E>(entry),                                              // OBL no_destination_hands_the_entry_back
         """),
]
POSTLUDE = ""
OUTER = ""
CANARY = dict(fn="get_test_sink", replace=("r == test_sink_now(),", "r == tl_sink(),"))
