"""Kani harness groups. Each group = one `cargo kani` invocation on one crate of the scratch copy.
harness keys: name, complete (True = loop-free or structurally bounded with unwinding assertions => proof;
False = bounded stand-in), bound (text), tier, props, targets (functions under contract), covers (expected #cover!s)."""

GROUPS = {
    "emf_buf": dict(
        crate="metrique-writer-format-emf",
        prefix="buf::verif_kani::",
        modules={"metrique-writer-format-emf/src/buf.rs": "kani/emf/buf.rs"},
        target_files="metrique-writer-format-emf/src/buf.rs",
        props=["C16"],
        harnesses=[
            dict(name="advance_slices_1", complete=True, targets=["advance_slices"], covers=0, tier="quick",
                 bound="1 slice, symbolic length 0..=4 and contents; unwinding assertions on"),
            dict(name="advance_slices_2", complete=True, targets=["advance_slices"], covers=1, tier="quick",
                 bound="2 slices"),
            dict(name="advance_slices_3", complete=True, targets=["advance_slices"], covers=1, tier="quick",
                 bound="3 slices (= SmallVec<[_;3]> call site)"),
            dict(name="advance_slices_5", complete=True, targets=["advance_slices"], covers=1, tier="thorough", timeout=900,
                 bound="5 slices (= SmallVec<[_;5]> call site)"),
            dict(name="advance_slices_overrun_panics", complete=True, should_panic=True, targets=["advance_slices"], tier="quick"),
            dict(name="write_all_vectored_scripted_3x2", complete=False, targets=["write_all_vectored"], covers=2, tier="thorough", timeout=1500,
                 bound="<= 3 slices x <= 2 bytes, <= 6 writer calls (accept k / Interrupted / Ok(0) / hard error, symbolic per call)"),
        ],
    ),
}
