"""Unit `coresink` (C01 / C09): the sink plumbing in metrique-writer-core/src/sink.rs between a caller and the queue - AppendOnDrop
(new, its Drop::drop as an inherent method, into_entry, forget), the blanket `EntrySink<E> for T: AnyEntrySink` (append), and
BoxEntrySink's append_any (box the entry, hand it to the erased sink).

Proved: a guard appends the entry it holds to its sink exactly when it is dropped while still holding one, and holds none afterwards;
into_entry / forget take the entry out so the later drop appends nothing; the blanket impl and the boxed sink forward every entry
(boxed: as `entry.boxed()`) with exactly one call."""

NAME = "coresink"
PROPERTIES = ["C01"]
S = "metrique-writer-core/src/sink.rs"

def c1_self_param(text):
    """C1: the blanket impl `impl<T: AnyEntrySink, E> EntrySink<E> for T` is verified as a free-standing generic function of `self_: &T`
    (a blanket impl for every T cannot be restated next to the stand-in traits): `self.` -> `self_.`"""
    n = text.count("self.append_any(entry)")
    return text.replace("self.append_any(entry)", "self_.append_any(entry)"), n


PRELUDE = r'''
pub trait Entry: Sized {
    spec fn boxed_spec(self) -> BoxEntry;
    fn boxed(self) -> (r: BoxEntry) ensures r == self.boxed_spec();
}
#[verifier::external_body] pub struct BoxEntry { _p: u8 }
#[verifier::external_body] pub struct FlushWait { _p: u8 }
// sinks take &self: an append is witnessed by a predicate only the call can establish
pub uninterp spec fn appended<S: ?Sized, E>(sink: &S, entry: E) -> bool;
pub uninterp spec fn any_appended<S: ?Sized, E>(sink: &S, entry: E) -> bool;
pub trait EntrySink<E> {
    fn append(&self, entry: E) ensures appended(self, entry);
    fn flush_async(&self) -> FlushWait;
}
pub trait AnyEntrySink {
    fn append_any<VerifI0: Entry + Send + 'static>(&self, entry: VerifI0) ensures any_appended(self, entry);
    fn flush_async(&self) -> FlushWait;
}
// Arc<Box<dyn EntrySink<BoxEntry> + Send + Sync>> (stand-in): the erased sink behind a BoxEntrySink
#[verifier::external_body] pub struct ErasedSink { _p: u8 }
impl ErasedSink {
    #[verifier::external_body] pub fn append(&self, entry: BoxEntry) ensures appended(self, entry) { unimplemented!() }
    #[verifier::external_body] pub fn flush_async(&self) -> FlushWait { unimplemented!() }
}
pub struct BoxEntrySink(pub ErasedSink);
pub struct VerifBlanket {}
'''

_AOD = r"^impl < E : Entry , Q : EntrySink < E >> AppendOnDrop < E , Q >$"

ITEMS = [
    dict(kind="struct", file=S, name="AppendOnDrop", attrs=["#[verifier::reject_recursive_types(E)]", "#[verifier::reject_recursive_types(Q)]"]),
    dict(kind="fn", file=S, impl=_AOD, name="new", ret="r", label="AppendOnDrop::new", sig_replace=[("pub(crate) fn", "pub fn")],
         ensures="r.entry == Some(entry) && r.sink == sink,"),
    dict(kind="fn", file=S, impl=r"^impl < E : Entry , Q : EntrySink < E >> Drop for AppendOnDrop < E , Q >$", name="drop", label="AppendOnDrop::drop",
         impl_header_override="impl<E: Entry, Q: EntrySink<E>> AppendOnDrop<E, Q>",
         ensures="""
            // C01: the guard appends the entry it still holds, once (it holds none afterwards)
            old(self).entry is Some ==> appended(&old(self).sink, old(self).entry->0),          // OBL append_on_drop_appends_the_entry
            final(self).entry is None,
         """),
    dict(kind="fn", file=S, impl=_AOD, name="into_entry", ret="r", label="AppendOnDrop::into_entry",
         requires="self.entry is Some,   // a live guard holds its entry (it is taken only here, by forget and by drop)",
         ensures="Some(r) == self.entry,"),
    dict(kind="fn", file=S, impl=_AOD, name="forget", label="AppendOnDrop::forget",
         proofs=[("end", None, "proof { assert(__s.entry is None); /* OBL forgotten_guard_appends_nothing */ }")]),
    dict(kind="fn", file=S, impl=r"^impl < T : AnyEntrySink , E : Entry \+ Send \+ 'static > EntrySink < E > for T$", name="append", label="<T as EntrySink>::append",
         impl_header_override="impl VerifBlanket", sig_replace=[("fn append(&self, entry: E)", "pub fn append<T: AnyEntrySink, E: Entry + Send + 'static>(self_: &T, entry: E)")],
         extra_rewrites=[c1_self_param], rules={"c1_self_param": 1}, unpinned=["c1_self_param"],
         ensures="any_appended(self_, entry),       // OBL blanket_sink_forwards_the_entry"),
    dict(kind="fn", file=S, impl=r"^impl AnyEntrySink for BoxEntrySink$", name="append_any", label="BoxEntrySink::append_any", impl_trait_args=True, rules={"R14": 1},
         impl_header_override="impl BoxEntrySink", sig_replace=[("fn append_any", "pub fn append_any")],
         ensures="appended(&self.0, entry.boxed_spec()),      // OBL box_entry_sink_forwards_the_boxed_entry"),
]
POSTLUDE = ""
CANARY = dict(fn="AppendOnDrop::drop", replace=("final(self).entry is None,", "final(self).entry is Some,"))
