import os
from . import common

_cache = {}


def search(prop, unit_result, failure, log):
    repo = unit_result.get("repo", "/repo")
    if repo not in _cache:
        _cache[repo] = common.run_native(repo, "metrique-writer-format-emf", "verif_replay_emf_wav",
                                         os.path.join(common.ROOT, "replay_search", "native", "emf_wav.rs"), log)
    r = _cache[repo]
    how = ("copy /verif/replay_search/native/emf_wav.rs to metrique-writer-format-emf/tests/ of the tree under test and run "
           "`cargo test --offline -p metrique-writer-format-emf --test emf_wav -- --nocapture`")
    if r["failing_input"]:
        return {"failing_input": r["failing_input"], "replay_native": {"failure": r["failure"], "cmd": r["cmd"]}, "how_to_replay": how}
    return {"failing_input": None, "replay_native": {"searched": r["searched"], "rc": r["rc"], "tail": r["tail"][-800:]}, "how_to_replay": how}
