"""Engine K: Kani on a scratch copy of /repo's working tree with #[cfg(kani)] harness modules appended
to the real source files (child modules see the parent's private items, so the real functions are
called directly).  Nothing existing is edited except rule R1k (tracing log macros -> `()`), applied
only to the files listed per group, because a reachable tracing::*! makes kani-compiler 0.68 panic."""
import importlib
import json
import os
import re
import shutil
import subprocess
import time

from .extract import Undecided, _toks, LOG_MACROS
from .rusttok import Source

ROOT = os.path.dirname(os.path.dirname(os.path.abspath(__file__)))
KANI_TARGET = os.environ.get("VERIF_KANI_TARGET", "/tmp/verif_kani_target")
SCRATCH_BASE = os.environ.get("VERIF_KANI_SCRATCH", "/tmp/verif_kani_scratch")


def r1k_drop_log(text):
    """every tracing::{error,warn,info,debug,trace}!(..) invocation -> `()` (logging only)."""
    hits = 0
    out = []
    toks, match = _toks(text)
    pos = 0
    i = 0
    while i < len(toks):
        t = toks[i]
        if t.kind == "ident" and t.text == "tracing" and i + 4 < len(toks) and toks[i + 1].text == "::" \
                and toks[i + 2].text in LOG_MACROS and toks[i + 3].text == "!" and toks[i + 4].text in ("(", "{", "["):
            c = match[i + 4]
            out.append(text[pos:t.start])
            out.append("()")
            pos = toks[c].end
            hits += 1
            i = c + 1
            continue
        i += 1
    out.append(text[pos:])
    return "".join(out), hits


def insert_attrs(text, relpath, locators):
    """locators: [(impl_regex_or_None, fn_name, attr_text)] -> insert attr lines above the fn."""
    for impl_pat, fn, attr in locators:
        src = Source(relpath, text)
        lo, hi = 0, len(src.toks)
        cands = []
        if impl_pat:
            for b in src.find_blocks("impl", impl_pat, lo, hi):
                cands += src.find_fn(fn, b[1] + 1, b[2])
        else:
            cands = src.find_fn(fn, lo, hi)
        if len(cands) != 1:
            raise Undecided("kani contract target %s::%s found %d times in %s" % (impl_pat, fn, len(cands), relpath))
        s = cands[0][0]
        s = src.attrs_before(s, lo)
        off = src.toks[s].start
        text = text[:off] + attr.strip() + "\n" + text[off:]
    return text


def prepare_scratch(repo, group, scratch, log):
    shutil.rmtree(scratch, ignore_errors=True)
    os.makedirs(scratch, exist_ok=True)
    subprocess.check_call(["rsync", "-a", "--exclude", "target", "--exclude", ".git", repo.rstrip("/") + "/", scratch + "/"])
    edits = {}
    for rel, modfile in group.get("modules", {}).items():
        p = os.path.join(scratch, rel)
        if not os.path.exists(p):
            raise Undecided("kani target file %s missing" % rel)
        text = open(p).read()
        info = {"appended": modfile}
        if rel in group.get("drop_log", []):
            text, n = r1k_drop_log(text)
            info["R1k"] = n
        if rel in group.get("contracts", {}):
            text = insert_attrs(text, rel, group["contracts"][rel])
            info["contracts"] = len(group["contracts"][rel])
        if rel in group.get("generate", {}):
            # generated harness support code: real function bodies copied from the file under test (see the generator's docstring)
            gen = importlib.import_module(group["generate"][rel])
            gtext = gen.generate(text, rel)
            info["generated_by"] = group["generate"][rel]
        else:
            gtext = ""
        text = text.rstrip("\n") + "\n" + gtext       # generated code first: the harness module stays last (playback tests are inserted into it)
        if modfile:
            text = text.rstrip("\n") + "\n\n" + open(os.path.join(ROOT, modfile)).read()
        if rel in group.get("crate_attrs", {}):
            text = group["crate_attrs"][rel] + "\n" + text
        open(p, "w").write(text)
        edits[rel] = info
    for rel in group.get("drop_log", []):
        if rel not in group.get("modules", {}):
            p = os.path.join(scratch, rel)
            text, n = r1k_drop_log(open(p).read())
            open(p, "w").write(text)
            edits[rel] = {"R1k": n}
    # offline config for cargo kani
    os.makedirs(os.path.join(scratch, ".cargo"), exist_ok=True)
    with open(os.path.join(scratch, ".cargo", "config.toml"), "a") as f:
        f.write("\n[net]\noffline = true\n")
    return edits


def run_group(repo, prop, group_names, tier, workdir, log):
    groups_mod = importlib.import_module("kani.groups")
    results = []
    for gname in group_names:
        g = groups_mod.GROUPS[gname]
        results.extend(run_one_group(repo, prop, gname, g, tier, log))
    return results


def run_one_group(repo, prop, gname, g, tier, log):
    # tier "off": kept in the harness file for reference, never run by a registered command (did not finish within memory)
    harnesses = [h for h in g["harnesses"] if h.get("tier", "quick") != "off" and (tier == "thorough" or h.get("tier", "quick") == "quick")]
    harnesses = [h for h in harnesses if prop in h.get("props", g.get("props", [prop]))]
    if not harnesses:
        return []
    scratch = os.path.join(SCRATCH_BASE, "%s_%d" % (gname, os.getpid()))
    t0 = time.time()
    res_common = {"engine": "kani", "backend": "CBMC 6.11 / %s (via Kani 0.68)" % g.get("solver", "cadical")}
    try:
        edits = prepare_scratch(repo, g, scratch, log)
    except Undecided as e:
        return [dict(res_common, unit="kani:" + gname, status="undecided", undecided=["scratch preparation: %s" % e],
                     obligations=0, discharged=0, failures=[])]
    out_json = os.path.join(scratch, "verif_kani_out.json")
    names = [h["name"] for h in harnesses]
    timeout = max(h.get("timeout", 300) for h in harnesses)
    cmd = ["cargo", "kani", "-p", g["crate"], "-Z", "function-contracts", "-Z", "stubbing", "-Z", "unstable-options",
           "--target-dir", KANI_TARGET, "--exact", "-j", str(g.get("jobs", 8)), "--harness-timeout", "%ds" % timeout,
           "--output-format", "terse", "--export-json", out_json]
    for zf in g.get("zflags", []):
        cmd += ["-Z", zf]
    if g.get("features"):
        cmd += ["--features", g["features"]]
    if g.get("solver"):
        cmd += ["--solver", g["solver"]]
    for n in names:
        cmd += ["--harness", g.get("prefix", "") + n]
    if g.get("cbmc_args"):
        cmd += ["--cbmc-args"] + g["cbmc_args"]
    env = dict(os.environ, CARGO_NET_OFFLINE="true")
    log("[kani] group %s: %d harness(es)  (%s)" % (gname, len(names), " ".join(cmd[:8]) + " ..."))
    mem_gb = g.get("mem_gb", 12)

    def _limit():
        import resource
        resource.setrlimit(resource.RLIMIT_AS, (mem_gb << 30, mem_gb << 30))
    try:
        p = subprocess.run(cmd, cwd=scratch, env=env, stdout=subprocess.PIPE, stderr=subprocess.STDOUT, text=True,
                           timeout=g.get("group_timeout", 3600), preexec_fn=_limit)
        out, rc = p.stdout, p.returncode
    except subprocess.TimeoutExpired as e:
        out, rc = (e.stdout.decode() if isinstance(e.stdout, bytes) else (e.stdout or "")) + "\nGROUP TIMEOUT", -9
    wall = time.time() - t0
    try:
        os.makedirs(os.path.join(ROOT, "scratch", "logs"), exist_ok=True)
        with open(os.path.join(ROOT, "scratch", "logs", "kani_%s_%s.log" % (gname, prop)), "w") as fh:
            fh.write(" ".join(cmd) + "\n" + out)
    except OSError:
        pass
    js = None
    if os.path.exists(out_json):
        try:
            js = json.load(open(out_json))
        except Exception:
            js = None
    stubs = sorted(set(re.findall(r"- Stub: (.*)", out)))
    results = []
    by_id = {}
    if js is None or "error: could not compile" in out or rc == -9 and not js:
        tail = "\n".join(l for l in out.split("\n") if l.startswith("error") or "-->" in l)[:1500] or out[-1500:]
        shutil.rmtree(scratch, ignore_errors=True)
        return [dict(res_common, unit="kani:" + gname, status="undecided", obligations=0, discharged=0, failures=[],
                     bounded=False, cmd=" ".join(cmd), wall_s=wall,
                     undecided=["group produced no result (compile error, ICE or timeout): %s" % tail])]
    if js:
        for r in js.get("verification_results", {}).get("results", []):
            by_id[r["harness_id"]] = r
        pd = {x["harness_id"]: (x.get("property_details") or {}) for x in js.get("property_details", [])}
        cb = {x["harness_id"]: (x.get("cbmc_stats") or {}) for x in js.get("cbmc", [])}
    else:
        pd, cb = {}, {}
    for h in harnesses:
        full = g.get("prefix", "") + h["name"]
        hid = next((k for k in by_id if k == full or k.endswith("::" + h["name"])), None)
        bounded = not h.get("complete", False)
        res = dict(res_common, unit="kani:%s::%s" % (gname, h["name"]), status="pass", failures=[], undecided=[],
                   bounded=bounded, bound=h.get("bound"), cmd=" ".join(cmd), stubs=stubs if h.get("uses_stubs") else [],
                   wall_s=wall, repo=repo,
                   functions=[{"fn": f, "repo": g.get("target_files", ""), "rewrites": {}} for f in h.get("targets", [])])
        if hid is None:
            res["status"] = "undecided"
            tail = out[-1500:]
            res["undecided"].append("harness %s produced no result (compile error, ICE or timeout): %s" % (h["name"], tail))
            res["obligations"] = 0
            res["discharged"] = 0
            results.append(res)
            continue
        r = by_id[hid]
        d = pd.get(hid) or {}
        d = {k: (v or 0) for k, v in d.items()}
        tot = d.get("total_properties", 0)
        failed = d.get("failed", 0)
        undet = d.get("undetermined", 0) + d.get("solver_error", 0)
        res["obligations"] = tot - d.get("unreachable", 0)
        res["discharged"] = d.get("passed", 0) + d.get("satisfied", 0)
        if h.get("should_panic") and r.get("status") == "Success":
            # a should_panic harness is one obligation: the expected panic is reachable
            res["obligations"] = res["discharged"] = 1
        res["solver_s"] = (cb.get(hid) or {}).get("runtime_decision_procedure_s")
        res["harnesses"] = [{"name": h["name"], "checks": tot, "status": r.get("status"), "unreachable": d.get("unreachable"),
                             "covers_satisfied": d.get("satisfied")}]
        if h.get("covers") is not None and d.get("satisfied", 0) < h["covers"]:
            res["status"] = "undecided"
            res["undecided"].append("vacuity guard: only %d of %d cover properties satisfied" % (d.get("satisfied", 0), h["covers"]))
        status = r.get("status")
        if status == "Success" and failed == 0 and undet == 0:
            pass
        elif failed > 0 or status == "Failure":
            bad = [c for c in r.get("checks", []) if c.get("status") in ("Failure", "Failed")]
            unwinding = [c for c in bad if "unwinding assertion" in c.get("description", "")]
            # checks Kani adds on its own that are not obligations of the property (listed per harness, reported in the evidence)
            ignored = [c for c in bad if any(re.search(p, c.get("description", "")) for p in h.get("ignore_checks", []))]
            real = [c for c in bad if c not in unwinding and c not in ignored]
            if ignored:
                res["ignored_checks"] = sorted(set(c.get("description", "") for c in ignored))
                res["obligations"] -= len(ignored)
            if h.get("should_panic"):
                real = []
            if not real and not unwinding and ignored and failed == len(ignored):
                pass    # only ignorable checks failed: every obligation of this harness is discharged
            elif not real and unwinding:
                res["status"] = "undecided"
                res["undecided"].append("unwinding assertion failed: bound too small for this code")
            elif not real and not bad:
                res["status"] = "undecided"
                res["undecided"].append("harness reported failure without a failed check: %s" % out[-800:])
            else:
                res["status"] = "violation"
                for c in real[:5]:
                    desc = c.get("description", "")
                    res["failures"].append({
                        "obligation": "kani:%s::%s::%s" % (gname, h["name"], re.sub(r"[^A-Za-z0-9]+", "_", desc)[:70].strip("_")),
                        "function": c.get("function"), "kind": c.get("category"), "clause": desc,
                        "origin": c.get("location"), "verifier_output": json.dumps(c)[:1500],
                        "harness": full, "group": gname,
                    })
        else:
            res["status"] = "undecided"
            res["undecided"].append("harness status %s (undetermined=%d)" % (status, undet))
        results.append(res)
    # replay counterexamples
    for res in results:
        for f in res["failures"]:
            try:
                f.update(concrete_playback(scratch, g, f["harness"], env, log))
            except Exception as e:  # replay never decides anything
                f.update({"failing_input": None, "how_to_replay": "concrete playback failed: %r" % (e,)})
    if not os.environ.get("VERIF_KEEP_SCRATCH"):
        shutil.rmtree(scratch, ignore_errors=True)
    return results


def concrete_playback(scratch, g, harness, env, log):
    """Re-run the failing harness with --concrete-playback=print, extract the generated unit test and run it
    natively with `cargo kani playback` against the same scratch copy (the real functions)."""
    cmd = ["cargo", "kani", "-p", g["crate"], "-Z", "function-contracts", "-Z", "stubbing", "-Z", "concrete-playback",
           "--target-dir", KANI_TARGET, "--exact", "--harness", harness, "--concrete-playback", "print"]
    for zf in g.get("zflags", []):
        cmd += ["-Z", zf]
    log("  kani counterexample: %s" % " ".join(cmd[-6:]))
    p = subprocess.run(cmd, cwd=scratch, env=env, stdout=subprocess.PIPE, stderr=subprocess.STDOUT, text=True, timeout=g.get("playback_timeout", 900))
    m = re.search(r"```\n(.*?)```", p.stdout, re.S)
    if not m:
        return {"failing_input": None, "how_to_replay": "kani printed no concrete playback test", "replay_native": {"tail": p.stdout[-1500:]}}
    test = m.group(1)
    native = {}
    try:
        # run the concrete test natively against the real functions of the scratch copy
        tname = re.search(r"fn (kani_concrete_playback_\w+)", test).group(1)
        for rel, modfile in g.get("modules", {}).items():
            if not modfile:
                continue
            pth = os.path.join(scratch, rel)
            txt = open(pth).read().rstrip()
            if txt.endswith("}"):
                open(pth, "w").write(txt[:-1] + "\n" + test + "\n}\n")
            break
        pc = ["cargo", "kani", "playback", "-p", g["crate"], "-Z", "concrete-playback", "--", tname]
        pp = subprocess.run(pc, cwd=scratch, env=dict(env, CARGO_TARGET_DIR=KANI_TARGET + "_playback"), stdout=subprocess.PIPE, stderr=subprocess.STDOUT, text=True, timeout=g.get("playback_timeout", 900))
        reproduced = ("panicked" in pp.stdout) or ("test result: FAILED" in pp.stdout)
        panic = re.search(r"panicked at ([^\n]*)\n([^\n]*)", pp.stdout)
        native = {"cmd": " ".join(pc), "reproduced_natively": reproduced, "panic": (panic.group(0)[:400] if panic else None), "rc": pp.returncode}
    except Exception as e:
        native = {"error": repr(e)}
    vals = re.findall(r"//\s*(.+)\n\s*vec!\[([^\]]*)\]", test)
    concrete = "; ".join("%s = bytes[%s]" % (a.strip(), b.strip()) for a, b in vals)[:1500] or test[:1500]
    return {"failing_input": concrete, "replay_native": dict(native, kani_playback_test=test[:6000]),
            "how_to_replay": "paste the generated #[test] into the module appended by /verif (%s) and run `cargo kani playback -Z concrete-playback --test <name>` in a scratch copy" % ", ".join(g.get("modules", {}).values())}
