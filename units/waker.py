"""Unit `waker` (C04): WakerTracker::{new, handle_waiting_wakers, will_progress_on_drained_queue},
extracted verbatim from metrique-writer/src/sink/background.rs (R1 drops one tracing::debug! line).

Contract: one call of handle_waiting_wakers refines the abstract step `wt_step` on the abstract
state (number of waiting wakers, entries_before_wake); the lemmas at the end lift the step contract
to arbitrary call histories (S1 no early wake, L1 bounded wake, S2 no busy loop)."""

NAME = "waker"
PROPERTIES = ["C04"]
BG = "metrique-writer/src/sink/background.rs"

PRELUDE = r'''
// ---- assumed: dependency types (tokio oneshot sender, std mpsc receiver) -------------------
pub mod tokio { pub mod sync { pub mod oneshot {
    use vstd::prelude::*;
    // Dropping a Sender completes the matching receiver future (tokio contract, assumed).
    #[verifier::external_body]
    #[verifier::reject_recursive_types(T)]
    pub struct Sender<T> { _p: core::marker::PhantomData<T> }
}}}

#[verifier::external_type_specification]
#[verifier::external_body]
#[verifier::reject_recursive_types(T)]
pub struct ExReceiver<T>(std::sync::mpsc::Receiver<T>);

#[verifier::external_type_specification]
pub struct ExTryRecvError(std::sync::mpsc::TryRecvError);

// try_recv: any result is possible (no assumption on what is pending).
pub assume_specification<T>[ std::sync::mpsc::Receiver::<T>::try_recv ](r: &std::sync::mpsc::Receiver<T>) -> (res: Result<T, std::sync::mpsc::TryRecvError>);

// ---- abstract step (written from the property statement and S1/S2/L1) --------------------------
// state: w = number of flush signals currently held (not yet completed), c = entries still to be
// popped before they may be completed.
pub struct WtAbs { pub w: nat, pub c: nat }

pub open spec fn wt_release(s: WtAbs, drained: bool, n: nat) -> bool {
    s.w > 0 && (s.c <= n || drained)
}

// state after the "count down / release" half of a step
pub open spec fn wt_after_release(s: WtAbs, drained: bool, n: nat) -> WtAbs {
    if s.w == 0 { s }
    else if wt_release(s, drained, n) { WtAbs { w: 0, c: 0 } }
    else { WtAbs { w: s.w, c: (s.c - n) as nat } }
}

// full step: `k` new signals are collected (only possible when none is held), cap is the value
// returned by the capacity callback
pub open spec fn wt_step(s: WtAbs, drained: bool, n: nat, k: nat, cap: nat) -> WtAbs {
    let m = wt_after_release(s, drained, n);
    if m.w > 0 { m }
    else if k > 0 { WtAbs { w: k, c: cap } }
    else { WtAbs { w: 0, c: m.c } }
}
'''

ITEMS = [
    dict(kind="struct", file=BG, name="DrainResult", keep_derive=True, structural=True),
    dict(kind="struct", file=BG, name="FlushSignal"),
    dict(kind="struct", file=BG, name="WakerTracker"),
    dict(kind="raw", label="wt_abs", text="""
pub open spec fn wt_abs(t: WakerTracker) -> WtAbs {
    WtAbs { w: t.waiting_wakers@.len() as nat, c: t.entries_before_wake as nat }
}
"""),
    dict(kind="fn", file=BG, impl=r"^impl WakerTracker$", name="new", ret="r",
         ensures="""
            r.waiting_wakers@.len() == 0,
            r.entries_before_wake == 0,
         """),
    dict(kind="fn", file=BG, impl=r"^impl WakerTracker$", name="handle_waiting_wakers",
         attrs=["#[verifier::exec_allows_no_decreases_clause]"],
         rules={"R1": 1},
         requires="""
            queue_capacity.requires(()),
            flush_stream.requires(()),
         """,
         ensures="""
            // (i) held signals are completed only in the release case, and only after the stream was flushed
            //     (flush_stream.ensures can only be established by calling the FnOnce; the order
            //     "flush, then release" is the assertion anchored before the call)
            wt_release(wt_abs(*old(self)),
                       status == DrainResult::Drained, entry_count as nat)
                ==> flush_stream.ensures((), ()),
            // (ii) not released: exactly the same signals are still held and the countdown advanced
            (old(self).waiting_wakers@.len() > 0 &&
             !wt_release(wt_abs(*old(self)),
                         status == DrainResult::Drained, entry_count as nat))
                ==> final(self).waiting_wakers@ == old(self).waiting_wakers@
                    && final(self).entries_before_wake == old(self).entries_before_wake - entry_count
                    && final(self).entries_before_wake > 0,
            // (iii) the abstract state after the call is wt_step of the abstract state before it, for the
            //       number of newly collected signals and the capacity the callback returned
            wt_abs(*final(self)) == wt_step(wt_abs(*old(self)), status == DrainResult::Drained, entry_count as nat,
                                            final(self).waiting_wakers@.len() as nat, final(self).entries_before_wake as nat),
            // a fresh generation of signals starts with exactly the value returned by the capacity callback
            (wt_after_release(wt_abs(*old(self)), status == DrainResult::Drained, entry_count as nat).w == 0
                && final(self).waiting_wakers@.len() > 0)
                ==> queue_capacity.ensures((), final(self).entries_before_wake),
         """,
         loops={1: """
            invariant
                queue_capacity.requires(()),
                self.entries_before_wake == verif_c_mid,
                verif_w_mid == 0,
         """},
         proofs=[
             ("before", "flush_stream ( ) ;",
              "proof { assert(self.waiting_wakers@ =~= old(self).waiting_wakers@); /* OBL flush-before-release */ }"),
             ("before", "while let Ok ( entry ) = self . flush_queue_receiver . try_recv ( )",
              """let ghost verif_c_mid = self.entries_before_wake;
                 let ghost verif_w_mid = self.waiting_wakers@.len();
                 proof {
                    assert((WtAbs { w: verif_w_mid as nat, c: verif_c_mid as nat })
                        == wt_after_release(wt_abs(*old(self)),
                                            status == DrainResult::Drained, entry_count as nat));
                 }"""),
         ]),
    dict(kind="fn", file=BG, impl=r"^impl WakerTracker$", name="will_progress_on_drained_queue", ret="r",
         ensures="""
            r == (old(self).waiting_wakers@.len() > 0),
            *final(self) == *old(self),
         """),
]

POSTLUDE = r'''
// ---------------------------------------------------------------------------------------------
// Lemmas over the abstract step (unbounded histories).  A history is a sequence of step inputs.
// ---------------------------------------------------------------------------------------------
pub struct WtIn { pub drained: bool, pub n: nat, pub k: nat, pub cap: nat }

pub open spec fn wt_run(s: WtAbs, h: Seq<WtIn>) -> WtAbs
    decreases h.len()
{
    if h.len() == 0 { s } else { wt_run(wt_step(s, h[0].drained, h[0].n, h[0].k, h[0].cap), h.subrange(1, h.len() as int)) }
}

pub open spec fn sum_n(h: Seq<WtIn>) -> nat
    decreases h.len()
{
    if h.len() == 0 { 0 } else { h[0].n + sum_n(h.subrange(1, h.len() as int)) }
}

pub open spec fn any_drained(h: Seq<WtIn>) -> bool {
    exists|i: int| 0 <= i < h.len() && h[i].drained
}

// "the signals held at the start are still the ones held" along a history: no release happened
pub open spec fn no_release(s: WtAbs, h: Seq<WtIn>) -> bool
    decreases h.len()
{
    if h.len() == 0 { true } else {
        !wt_release(s, h[0].drained, h[0].n) && no_release(wt_step(s, h[0].drained, h[0].n, h[0].k, h[0].cap), h.subrange(1, h.len() as int))
    }
}

// S1 (no early wake): signals collected with countdown c stay held as long as fewer than c entries
// have been popped and no drained queue was observed.
pub proof fn lemma_s1_no_early_wake(s: WtAbs, h: Seq<WtIn>)
    requires s.w > 0, sum_n(h) < s.c, !any_drained(h),
    ensures no_release(s, h), wt_run(s, h).w == s.w, wt_run(s, h).c == s.c - sum_n(h),
    decreases h.len()
{
    if h.len() > 0 {
        let t = h.subrange(1, h.len() as int);
        assert(!h[0].drained);
        assert forall|i: int| 0 <= i < t.len() implies !t[i].drained by { assert(t[i] == h[i + 1]); }
        let s1 = wt_step(s, h[0].drained, h[0].n, h[0].k, h[0].cap);
        assert(s1 == WtAbs { w: s.w, c: (s.c - h[0].n) as nat });
        lemma_s1_no_early_wake(s1, t);
    }
}

// L1 (bounded wake): once the popped entries reach the countdown, or one drained queue is seen,
// the signals held at the start have been released somewhere along the history.
pub proof fn lemma_l1_bounded_wake(s: WtAbs, h: Seq<WtIn>)
    requires s.w > 0, sum_n(h) >= s.c || any_drained(h), h.len() > 0,
    ensures !no_release(s, h),
    decreases h.len()
{
    let t = h.subrange(1, h.len() as int);
    if wt_release(s, h[0].drained, h[0].n) {
    } else {
        let s1 = wt_step(s, h[0].drained, h[0].n, h[0].k, h[0].cap);
        assert(s1 == WtAbs { w: s.w, c: (s.c - h[0].n) as nat });
        assert(!h[0].drained);
        if any_drained(h) {
            let i = choose|i: int| 0 <= i < h.len() && h[i].drained;
            assert(i > 0);
            assert(t[i - 1] == h[i]);
            assert(any_drained(t));
        } else {
            assert(sum_n(t) >= s1.c);
        }
        if t.len() == 0 {
            assert(sum_n(t) == 0);
            assert(!any_drained(t));
            assert(s1.c > 0);
            assert(false);
        }
        lemma_l1_bounded_wake(s1, t);
    }
}

// S2 (no busy loop): when signals are held (will_progress_on_drained_queue is true), a step with a
// drained queue releases them, i.e. the writer's non-parking iteration consumes a flush request.
pub proof fn lemma_s2_progress(s: WtAbs, n: nat, k: nat, cap: nat)
    requires s.w > 0,
    ensures wt_release(s, true, n),
{
}

// nothing is collected while signals are held: requests that arrive later wait for the next
// generation and get a fresh full countdown (cap), never the residue of the previous one.
pub proof fn lemma_fresh_countdown(s: WtAbs, drained: bool, n: nat, k: nat, cap: nat)
    ensures
        wt_after_release(s, drained, n).w > 0 ==> wt_step(s, drained, n, k, cap) == wt_after_release(s, drained, n),
        (wt_after_release(s, drained, n).w == 0 && k > 0) ==> wt_step(s, drained, n, k, cap) == (WtAbs { w: k, c: cap }),
{
}

// vacuity witnesses: the preconditions of the lemmas are satisfiable
pub proof fn sat_lemma_s1() {
    let h = seq![WtIn { drained: false, n: 1, k: 0, cap: 0 }];
    assert(h.subrange(1, 1).len() == 0);
    assert(sum_n(h.subrange(1, 1)) == 0);
    assert(sum_n(h) == 1) by { reveal_with_fuel(sum_n, 2); }
    lemma_s1_no_early_wake(WtAbs { w: 1, c: 2 }, h);
}
'''

# canary: with this clause negated the unit must FAIL (guards against a contradictory prelude)
CANARY = dict(fn="will_progress_on_drained_queue", replace=("r == (old(self).waiting_wakers@.len() > 0)", "r != (old(self).waiting_wakers@.len() > 0)"))

# replay search for Verus failures (no counterexample from the verifier): see replay/waker.rs
REPLAY = "waker"
