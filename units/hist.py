"""Unit `hist` (C11): observation capture, re-aggregation and the sort-and-merge strategy of
metrique-aggregation/src/histogram.rs conserve observations.

Under contract (real text; R14, R3b, and the listed exact-text rewrites S1/S2):
  * Capturer::metric inside Histogram::add_value            - every observation of the distribution is recorded once
  * <Histogram as AggregateValue<HistogramClosed>>::insert  - re-aggregation records every closed observation once
  * SortAndMerge::record_many / drain                       - drain is the run-length encoding of the sorted non-NaN values

Floating point: values are uninterpreted (Verus has no float theory): `a / b`, `a * b`, `u as f64`, `a == b` and
`is_nan` are opaque functions of their arguments.  So "the recorded value is the mean total/occurrences" and "the
reported total is value x count" are stated with those opaque functions, and counts (u64) are exact."""

NAME = "hist"
PROPERTIES = ["C11"]
H = "metrique-aggregation/src/histogram.rs"


def _stmt(name, old, new, doc):
    def f(text):
        n = text.count(old)
        return text.replace(old, new), n
    f.__name__ = name
    f.__doc__ = doc
    return f


s1 = _stmt("s1_sort", "self.values.sort_by_key(|v| OrderedFloat(*v));", "verif_sort_total_order(&mut self.values);",
           "S1: sort by the total order of OrderedFloat (stand-in: sorted permutation w.r.t. an opaque total order in which equal floats are adjacent)")
s2 = _stmt("s2_non_nan_iter", "self.values.iter().copied().filter(|v| !v.is_nan())", "verif_non_nan(&self.values)",
           "S2: iterator over the non-NaN elements, by value, in order")
s3 = _stmt("s3_repeat_n", "self.values\n            .extend(std::iter::repeat_n(value, count as usize));", "self.values.verif_extend_repeat(value, count as usize);",
           "S3: extend(repeat_n(value, n))")

def rf_as_f64(text):
    """RF: IDENT as f64  ->  verif_as_f64(IDENT)"""
    import re
    n = len(re.findall(r"\b([a-z_][a-z_0-9]*) as f64\b", text))
    return re.sub(r"\b([a-z_][a-z_0-9]*) as f64\b", r"verif_as_f64(\1)", text), n


def s4(text):
    """S4: `a == b` between two identifiers (float values in SortAndMerge::drain) -> verif_f64_eq(a, b): float equality is an opaque,
    symmetric relation (this Verus treats the exec comparison as an arbitrary value)"""
    import re
    pat = r"\b([a-z_][a-z_0-9]*) == ([a-z_][a-z_0-9]*)\b"
    n = len(re.findall(pat, text))
    return re.sub(pat, r"verif_f64_eq(\1, \2)", text), n
s4.__name__ = "s4_f64_eq"


def rc_f64_const(text):
    """RC: f64::EPSILON / MAX / MIN / INFINITY / NAN / MIN_POSITIVE -> an opaque float (unsupported associated constants)"""
    import re
    pat = r"\bf64::(EPSILON|MAX|MIN|INFINITY|NEG_INFINITY|NAN|MIN_POSITIVE)\b"
    n = len(re.findall(pat, text))
    return re.sub(pat, r"verif_f64_const()", text), n


PRELUDE = r'''
global size_of usize == 8;
use vstd::std_specs::ops::{MulSpec, DivSpec, SubSpec};
pub mod float_axioms {
    use vstd::prelude::*;
    use vstd::std_specs::ops::{MulSpec, DivSpec, SubSpec};
    // float multiplication / division never panic ...
    pub broadcast axiom fn f64_mul_req(a: f64, b: f64) ensures #[trigger] a.mul_req(b);
    pub broadcast axiom fn f64_div_req(a: f64, b: f64) ensures #[trigger] a.div_req(b);
    pub broadcast axiom fn f64_sub_req(a: f64, b: f64) ensures #[trigger] a.sub_req(b);
    // ... and are deterministic functions of their operands (results stay opaque)
    pub broadcast axiom fn f64_mul_obeys(a: f64, b: f64) ensures <f64 as MulSpec<f64>>::obeys_mul_spec() || #[trigger] a.mul_spec(b) != a.mul_spec(b);
    pub broadcast axiom fn f64_div_obeys(a: f64, b: f64) ensures <f64 as DivSpec<f64>>::obeys_div_spec() || #[trigger] a.div_spec(b) != a.div_spec(b);
}
broadcast use {float_axioms::f64_mul_req, float_axioms::f64_div_req, float_axioms::f64_mul_obeys, float_axioms::f64_div_obeys, float_axioms::f64_sub_req, eq_axioms::f64_eq_symmetric};

// RF: `x as f64` (u64 -> f64) is an opaque function of x (this Verus treats the cast as an arbitrary value)
pub uninterp spec fn u64_as_f64(x: u64) -> f64;
#[verifier::external_body]
pub fn verif_as_f64(x: u64) -> (r: f64) ensures r == u64_as_f64(x) { unimplemented!() }
pub uninterp spec fn f64_is_nan(a: f64) -> bool;
pub assume_specification[ f64::is_nan ](a: f64) -> (r: bool) ensures r == f64_is_nan(a);

pub mod metrique_writer {
    #[verifier::external_body] pub struct Unit { _p: u8 }
    #[verifier::external_body] pub struct ValidationError { _p: u8 }
}
#[verifier::external_body] pub struct MetricFlags<'a> { _p: &'a u8 }
pub trait MetricValue {}
use std::marker::PhantomData;
// default type parameter of Histogram<T, S = ..> only (the exponential strategy's bucket arithmetic lives in the `histogram` dependency)
#[verifier::external_body] pub struct ExponentialAggregationStrategy { _p: u8 }

// ---- iteration vocabulary: std's traits restated over the sequence of elements they yield (assumed) ----------
pub trait Iterator: Sized {
    type Item;
    spec fn rest(&self) -> Seq<Self::Item>;
    fn next(&mut self) -> (r: Option<Self::Item>)
        ensures
            old(self).rest().len() == 0 ==> r is None && final(self).rest() == old(self).rest(),
            old(self).rest().len() > 0 ==> r == Some(old(self).rest()[0]) && final(self).rest() == old(self).rest().skip(1);
}
pub trait IntoIterator: Sized {
    type Item;
    type IntoIter: Iterator<Item = Self::Item>;
    spec fn elems(&self) -> Seq<Self::Item>;
    fn into_iter(self) -> (r: Self::IntoIter)
        ensures r.rest() == self.elems();
}
// R3b: `for x in E` starts with IntoIterator::into_iter(E)
pub fn verif_iter<I: IntoIterator>(i: I) -> (r: I::IntoIter) ensures r.rest() == i.elems() { i.into_iter() }
// an iterator is its own IntoIterator (std blanket impl), for the two stand-in iterators used below
#[verifier::external_body]
#[verifier::reject_recursive_types(T)]
pub struct VerifSeqIter<T> { _p: core::marker::PhantomData<T> }
impl<T> VerifSeqIter<T> { pub uninterp spec fn left(&self) -> Seq<T>; }
impl<T> Iterator for VerifSeqIter<T> {
    type Item = T;
    open spec fn rest(&self) -> Seq<T> { self.left() }
    #[verifier::external_body] fn next(&mut self) -> (r: Option<T>) { unimplemented!() }
}
impl<T> IntoIterator for VerifSeqIter<T> {
    type Item = T;
    type IntoIter = VerifSeqIter<T>;
    open spec fn elems(&self) -> Seq<T> { self.left() }
    fn into_iter(self) -> (r: VerifSeqIter<T>) { self }
}
// Vec<T> by value (`for obs in value.observations`)
impl<T> IntoIterator for Vec<T> {
    type Item = T;
    type IntoIter = VerifSeqIter<T>;
    open spec fn elems(&self) -> Seq<T> { self@ }
    #[verifier::external_body] fn into_iter(self) -> (r: VerifSeqIter<T>) { unimplemented!() }
}

// ---- SortAndMerge vocabulary ------------------------------------------------------------------------------------
pub mod eq_axioms {
    use vstd::prelude::*;
    pub uninterp spec fn f64_eq(a: f64, b: f64) -> bool;
    pub broadcast axiom fn f64_eq_symmetric(a: f64, b: f64) ensures #[trigger] f64_eq(a, b) == f64_eq(b, a);
}
pub use eq_axioms::f64_eq;
// other float operations a refactoring may use: they never panic and their results are opaque
pub assume_specification[ f64::abs ](a: f64) -> (r: f64);
#[verifier::external_body]
pub fn verif_f64_const() -> f64 { unimplemented!() }
#[verifier::external_body]
pub fn verif_f64_eq(a: f64, b: f64) -> (r: bool) ensures r == f64_eq(a, b) { unimplemented!() }
// OrderedFloat's total order (opaque)
pub uninterp spec fn tot_le(a: f64, b: f64) -> bool;
pub open spec fn sorted_tot(s: Seq<f64>) -> bool { forall|i: int, j: int| 0 <= i < j < s.len() ==> tot_le(s[i], s[j]) }
pub open spec fn non_nan(s: Seq<f64>) -> Seq<f64> { s.filter(|x: f64| !f64_is_nan(x)) }
#[verifier::external_body]
#[verifier::reject_recursive_types(A)]
pub struct SmallVec<A> { _p: core::marker::PhantomData<A> }
impl<const N: usize> SmallVec<[f64; N]> {
    pub uninterp spec fn view(&self) -> Seq<f64>;
    // S3: extend(repeat_n(value, n))
    #[verifier::external_body]
    pub fn verif_extend_repeat(&mut self, value: f64, n: usize)
        ensures final(self)@ == old(self)@ + rep(value, n as nat)
    { unimplemented!() }
    #[verifier::external_body]
    pub fn clear(&mut self) ensures final(self)@.len() == 0 { unimplemented!() }
}
// S1: sort_by_key(|v| OrderedFloat(*v)) - a sorted permutation
#[verifier::external_body]
pub fn verif_sort_total_order<const N: usize>(v: &mut SmallVec<[f64; N]>)
    ensures sorted_tot(final(v)@), final(v)@.to_multiset() == old(v)@.to_multiset(),
{ unimplemented!() }
// S2: iter().copied().filter(|v| !v.is_nan())
#[verifier::external_body]
pub fn verif_non_nan<const N: usize>(v: &SmallVec<[f64; N]>) -> (r: VerifSeqIter<f64>)
    ensures r.left() == non_nan(v@), v@.len() <= usize::MAX,
{ unimplemented!() }

// run-length encoding w.r.t. float equality with the FIRST element of the run (what "equal values merged" means)
pub open spec fn runs(s: Seq<f64>) -> Seq<(f64, nat)>
    decreases s.len()
{
    if s.len() == 0 { Seq::<(f64, nat)>::empty() }
    else {
        let r = runs(s.drop_last());
        if r.len() > 0 && f64_eq(s.last(), r.last().0) { r.drop_last().push((r.last().0, r.last().1 + 1)) }
        else { r.push((s.last(), 1nat)) }
    }
}
// a run is reported as Repeated { total: value x count, occurrences: count }
pub open spec fn out_obs(p: (f64, nat)) -> Observation {
    Observation::Repeated { total: p.0.mul_spec(u64_as_f64(p.1 as u64)), occurrences: p.1 as u64 }
}
pub open spec fn enc(r: Seq<(f64, nat)>) -> Seq<Observation> { r.map_values(|p: (f64, nat)| out_obs(p)) }

// ---- what a strategy is told ---------------------------------------------------------------------------------
pub trait ValueWriter: Sized {
    fn string(self, value: &str);
    fn metric<'a, VerifI0: IntoIterator<Item = Observation>, VerifI1: IntoIterator<Item = (&'a str, &'a str)>>(self, distribution: VerifI0, unit: metrique_writer::Unit, dimensions: VerifI1, flags: MetricFlags<'_>);
    fn error(self, error: metrique_writer::ValidationError);
}
pub open spec fn rep(v: f64, n: nat) -> Seq<f64> { Seq::new(n, |i: int| v) }
pub trait AggregationStrategy {
    // every observation recorded so far, in order, a value recorded `count` times appearing `count` times
    spec fn flat(&self) -> Seq<f64>;
    // default method of the real trait: `self.record_many(value, 1)`
    fn record(&mut self, value: f64)
        ensures final(self).flat() == old(self).flat().push(value);
    fn record_many(&mut self, value: f64, count: u64)
        ensures final(self).flat() == old(self).flat() + rep(value, count as nat);
    // what drain reports is specific to the strategy (contract on the impl)
    fn drain(&mut self) -> Vec<Observation>;
}
pub trait AggregateValue<T> {
    type Aggregated;
    fn insert(accum: &mut Self::Aggregated, value: T);
}

// C11 (capture): what one observation contributes - written from the property statement:
// a plain observation counts once at its value; Repeated{total, n} counts n times at the mean total/n (so n = 0 contributes nothing)
pub open spec fn cap1(o: Observation) -> Seq<f64> {
    match o {
        Observation::Unsigned(v) => seq![u64_as_f64(v)],
        Observation::Floating(v) => seq![v],
        Observation::Repeated { total, occurrences } => rep(total.div_spec(u64_as_f64(occurrences)), occurrences as nat),
    }
}
pub open spec fn capture(s: Seq<Observation>) -> Seq<f64>
    decreases s.len()
{
    if s.len() == 0 { Seq::<f64>::empty() } else { capture(s.drop_last()) + cap1(s.last()) }
}
pub open spec fn obs_count(o: Observation) -> nat {
    match o { Observation::Unsigned(_) => 1, Observation::Floating(_) => 1, Observation::Repeated { total, occurrences } => occurrences as nat }
}
pub open spec fn obs_total(s: Seq<Observation>) -> nat
    decreases s.len()
{
    if s.len() == 0 { 0 } else { obs_total(s.drop_last()) + obs_count(s.last()) }
}
'''

CAPTURE_LOOP = """
            invariant
                verif_consumed + verif_it0.rest() == verif_all,
                (*self.0).flat() == verif_flat0 + capture(verif_consumed),
            ensures
                verif_it0.rest().len() == 0,
"""
_CAP_PROOFS = [
    ("before", "{ let mut verif_it0 = verif_iter ( distribution ) ;",
     """let ghost verif_all = distribution.elems();
        let ghost verif_flat0 = (*self.0).flat();
        let ghost mut verif_consumed = Seq::<Observation>::empty();
        proof { assert(verif_flat0 + capture(verif_consumed) =~= verif_flat0); }"""),
]

ITEMS = [
    dict(kind="struct", file="metrique-writer-core/src/value/mod.rs", name="Observation"),
    dict(kind="raw", label="Capturer (declared inside Histogram::add_value)", text="pub struct Capturer<'a, S>(pub &'a mut S);\n"),
    dict(kind="fn", file=H, inside_fn=(r"^impl < T , S : AggregationStrategy > Histogram < T , S >$", "add_value"), impl=r"^impl < 'b , S : AggregationStrategy > ValueWriter for Capturer < 'b , S >$", name="string", label="Capturer::string",
         ensures="final(self.0).flat() == old(self.0).flat(),"),
    dict(kind="fn", file=H, inside_fn=(r"^impl < T , S : AggregationStrategy > Histogram < T , S >$", "add_value"), impl=r"^impl < 'b , S : AggregationStrategy > ValueWriter for Capturer < 'b , S >$", name="metric", label="Capturer::metric",
         impl_trait_args=True, rules={"R14": 2, "rf_as_f64": 2}, desugar_for=True, extra_rewrites=[rf_as_f64], unpinned=["rf_as_f64"],
         attrs=["#[verifier::exec_allows_no_decreases_clause]"],
         ensures="""
            // C11: every observation handed to the histogram is recorded exactly once, in order - a plain observation once at its
            // value, a Repeated one `occurrences` times at its mean, an empty Repeated not at all
            final(self.0).flat() == old(self.0).flat() + capture(distribution.elems()),                 // OBL capture_records_every_observation_once
         """,
         loops={1: CAPTURE_LOOP},
         proofs=_CAP_PROOFS + [
             ("before", "match obs {",
              """proof {
                    assert(verif_consumed.push(obs).drop_last() =~= verif_consumed);
                    verif_consumed = verif_consumed.push(obs);
                    assert(verif_consumed + verif_it0.rest() =~= verif_all);
                 }"""),
             ("after", "_ => { } }",
              """proof { assert((*self.0).flat() =~= verif_flat0 + capture(verif_consumed)); }"""),
             ("end", None,
              """proof { assert(verif_consumed =~= verif_all); }"""),
         ]),
    dict(kind="fn", file=H, inside_fn=(r"^impl < T , S : AggregationStrategy > Histogram < T , S >$", "add_value"), impl=r"^impl < 'b , S : AggregationStrategy > ValueWriter for Capturer < 'b , S >$", name="error", label="Capturer::error",
         ensures="final(self.0).flat() == old(self.0).flat(),"),
    # ---- sort-and-merge strategy
    dict(kind="struct", file=H, name="SortAndMerge", attrs=["#[verifier::reject_recursive_types(N)]"]),
    dict(kind="fn", file=H, impl=r"^impl < const N : usize > AggregationStrategy for SortAndMerge < N >$", name="record_many", label="SortAndMerge::record_many",
         rules={"s3_repeat_n": 1}, extra_rewrites=[s3],
         impl_extra="    open spec fn flat(&self) -> Seq<f64> { self.values@ }\n"
                    "    // default method of the trait (`self.record_many(value, 1)`), restated\n"
                    "    fn record(&mut self, value: f64) { self.record_many(value, 1); proof { assert(rep(value, 1) =~= seq![value]); } }\n"),
    dict(kind="fn", file=H, impl=r"^impl < const N : usize > AggregationStrategy for SortAndMerge < N >$", name="drain", label="SortAndMerge::drain", ret="r",
         rules={"s1_sort": 1, "s2_non_nan_iter": 1, "s4_f64_eq": 1, "rf_as_f64": 2}, extra_rewrites=[s1, s2, s4, rf_as_f64, rc_f64_const], unpinned=["rf_as_f64", "s4_f64_eq", "rc_f64_const"], desugar_for=True,
         attrs=["#[verifier::exec_allows_no_decreases_clause]"],
         ensures="""
            // C11 (sort-and-merge): the reported observations are exactly the run-length encoding of the recorded non-NaN values in
            // ascending order - one Repeated{value x count, count} per maximal run of equal values - and the strategy is empty afterwards
            exists|srt: Seq<f64>| sorted_tot(srt) && srt.to_multiset() == old(self).values@.to_multiset()
                && r@ == #[trigger] enc(runs(non_nan(srt))),                                              // OBL drain_is_rle_of_sorted_values
            final(self).values@.len() == 0,                                                               // OBL drain_empties_the_strategy
         """,
         loops={1: """
            invariant
                verif_consumed + verif_it0.rest() == verif_nn,
                verif_consumed.len() >= 1,
                verif_nn.len() <= usize::MAX,
                runs(verif_consumed).len() > 0,
                runs(verif_consumed).last() == (current_value, current_count as nat),
                observations@ == enc(runs(verif_consumed).drop_last()),
                current_count as nat <= verif_consumed.len(),
            ensures
                verif_it0.rest().len() == 0,
         """},
         proofs=[
             ("after", "verif_sort_total_order ( & mut self . values ) ;",
              "let ghost verif_srt = self.values@; let ghost verif_nn = non_nan(self.values@);"),
             ("after", "let mut current_value = first ;",
              """let ghost mut verif_consumed = seq![first];
                 proof {
                    assert(verif_consumed.drop_last() =~= Seq::<f64>::empty());
                    assert(runs(verif_consumed.drop_last()) =~= Seq::<(f64, nat)>::empty());
                    assert(runs(verif_consumed) =~= seq![(first, 1nat)]);
                    assert(runs(verif_consumed).drop_last() =~= Seq::<(f64, nat)>::empty());
                    assert(verif_consumed + iter.rest() =~= verif_nn);
                 }"""),
             ("after", "Some ( value ) => {",
              """let ghost verif_prev = verif_consumed;
                 proof {
                    assert(verif_consumed.push(value).drop_last() =~= verif_consumed);
                    verif_consumed = verif_consumed.push(value);
                    assert(verif_consumed + verif_it0.rest() =~= verif_nn);
                    let r = runs(verif_prev);
                    if f64_eq(value, current_value) {
                        assert(runs(verif_consumed).drop_last() =~= r.drop_last());
                    } else {
                        assert(runs(verif_consumed).drop_last() =~= r);
                        assert(enc(r) =~= enc(r.drop_last()).push(out_obs(r.last())));
                    }
                 }"""),
             ("after", "occurrences : current_count , } ) ;",
              """proof {
                    assert(verif_consumed =~= verif_nn);
                    let r = runs(verif_consumed);
                    assert(enc(r) =~= enc(r.drop_last()).push(out_obs(r.last())));
                    assert(observations@ =~= enc(runs(verif_nn)));
                 }""", 1),
             ("before", "observations }",
              """proof {
                    if verif_nn.len() == 0 {
                        assert(runs(verif_nn) =~= Seq::<(f64, nat)>::empty());
                        assert(enc(runs(verif_nn)) =~= Seq::<Observation>::empty());
                    } else {
                        let r = runs(verif_nn);
                        assert(enc(r) =~= enc(r.drop_last()).push(out_obs(r.last())));
                    }
                    assert(observations@ =~= enc(runs(verif_nn)));
                    assert(sorted_tot(verif_srt));
                 }"""),
         ]),
    # ---- re-aggregation of a closed histogram
    dict(kind="struct", file=H, name="Histogram", attrs=["#[verifier::reject_recursive_types(T)]", "#[verifier::reject_recursive_types(S)]"]),
    dict(kind="struct", file=H, name="HistogramClosed", attrs=["#[verifier::reject_recursive_types(T)]"]),
    dict(kind="fn", file=H, impl=r"^impl < T , S > AggregateValue < HistogramClosed < T >> for Histogram < T , S > where", name="insert", label="<Histogram as AggregateValue<HistogramClosed>>::insert",
         desugar_for=True, rules={"rf_as_f64": 2}, extra_rewrites=[rf_as_f64], unpinned=["rf_as_f64"],
         attrs=["#[verifier::exec_allows_no_decreases_clause]"],
         impl_extra="    type Aggregated = Histogram<T, S>;\n",
         ensures="""
            // C11: re-aggregating a closed histogram records every closed observation once, with its count
            final(accum).strategy.flat() == old(accum).strategy.flat() + capture(value.observations@),    // OBL reaggregation_records_every_observation_once
         """,
         loops={1: """
            invariant
                verif_consumed + verif_it0.rest() == verif_all,
                accum.strategy.flat() == verif_flat0 + capture(verif_consumed),
            ensures
                verif_it0.rest().len() == 0,
         """},
         proofs=[
             ("before", "{ let mut verif_it0 = verif_iter ( value . observations ) ;",
              """let ghost verif_all = value.observations@;
                 let ghost verif_flat0 = accum.strategy.flat();
                 let ghost mut verif_consumed = Seq::<Observation>::empty();
                 proof { assert(verif_flat0 + capture(verif_consumed) =~= verif_flat0); }"""),
             ("before", "match obs {",
              """proof {
                    assert(verif_consumed.push(obs).drop_last() =~= verif_consumed);
                    verif_consumed = verif_consumed.push(obs);
                    assert(verif_consumed + verif_it0.rest() =~= verif_all);
                 }"""),
             ("after", "_ => { } }",
              """proof { assert(accum.strategy.flat() =~= verif_flat0 + capture(verif_consumed)); }"""),
             ("end", None,
              """proof { assert(verif_consumed =~= verif_all); }"""),
         ]),
]

POSTLUDE = r'''
// every run is non-empty and the runs' counts add up to the number of values: sort-and-merge conserves the count
pub open spec fn runs_total(r: Seq<(f64, nat)>) -> nat
    decreases r.len()
{
    if r.len() == 0 { 0 } else { runs_total(r.drop_last()) + r.last().1 }
}
pub proof fn lemma_runs_conserve_count(s: Seq<f64>)
    ensures runs_total(runs(s)) == s.len(), forall|i: int| 0 <= i < runs(s).len() ==> (#[trigger] runs(s)[i]).1 >= 1,
    decreases s.len()
{
    if s.len() > 0 {
        lemma_runs_conserve_count(s.drop_last());
        let r = runs(s.drop_last());
        if r.len() > 0 && f64_eq(s.last(), r.last().0) {
            let r2 = r.drop_last().push((r.last().0, r.last().1 + 1));
            assert(r2.drop_last() =~= r.drop_last());
        } else {
            assert(r.push((s.last(), 1nat)).drop_last() =~= r);
        }
    }
}
// count conservation follows from the capture contract: as many values are recorded as the observations have occurrences
pub proof fn lemma_capture_conserves_count(s: Seq<Observation>)
    ensures capture(s).len() == obs_total(s),
    decreases s.len()
{
    if s.len() > 0 {
        lemma_capture_conserves_count(s.drop_last());
    }
}
'''
CANARY = dict(fn="Capturer::metric", replace=("+ capture(distribution.elems()),", "+ capture(distribution.elems()).drop_last(),"))
