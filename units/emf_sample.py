"""Unit `emf_sample` (C12): SampledEmf::format_with_sample_rate, extracted from
metrique-writer-format-emf/src/emf.rs: a bad rate is rejected with nothing written; otherwise the entry is
formatted exactly once with multiplicity Some(rate_to_n(rate, rng)) - the weight whose value is the subject
of the Kani group emf_num - and that multiplicity is what multiplies every count (unit emf_value, mult_of)."""

NAME = "emf_sample"
PROPERTIES = ["C12"]
EMF = "metrique-writer-format-emf/src/emf.rs"

PRELUDE = r'''
pub uninterp spec fn f32_le_zero(r: f32) -> bool;
pub uninterp spec fn f32_is_nan(r: f32) -> bool;
pub assume_specification[ f32::is_nan ](r: f32) -> (b: bool) ensures b == f32_is_nan(r);
pub mod io { pub trait Write {} }
pub trait Entry {}
pub trait RngCore {}
#[verifier::external_body] #[verifier::reject_recursive_types(R)] pub struct DefaultRng<R> { p: core::marker::PhantomData<R> }
#[verifier::external_body] pub struct ThreadRng { p: u8 }
pub struct ValidationError { pub e: u8 }
impl ValidationError {
    #[verifier::external_body] pub fn invalid(reason: &str) -> ValidationError { unimplemented!() }
}
pub enum IoStreamError { Validation(ValidationError), Io(u8) }

// witnesses: established only by the callee
pub uninterp spec fn weight_of<R>(rate: f32, rng_before: R, n: u64) -> bool;     // n = rate_to_n(rate, rng)
pub uninterp spec fn formatted_with(multiplicity: Option<u64>, r: Result<(), IoStreamError>) -> bool;
#[verifier::external_body]
pub fn rate_to_n<R: RngCore>(rate: f32, rng: &mut R) -> (n: u64)
    ensures weight_of(rate, *old(rng), n),
{ unimplemented!() }
pub struct Emf { pub p: u8 }
impl Emf {
    // format_with_multiplicity: unit emf_fresh / emf_value
    #[verifier::external_body]
    pub fn format_with_multiplicity(&mut self, entry: &impl Entry, output: &mut impl io::Write, multiplicity: Option<u64>) -> (r: Result<(), IoStreamError>)
        ensures formatted_with(multiplicity, r),
    { unimplemented!() }
}
'''

ITEMS = [
    dict(kind="struct", file=EMF, name="SampledEmf", attrs=["#[verifier::reject_recursive_types(R)]"]),
    dict(kind="fn", file=EMF, impl=r"^impl < R : RngCore > SampledFormat for SampledEmf < R >$", name="format_with_sample_rate", ret="r",
         impl_header_override="impl<R: RngCore> SampledEmf<R>",
         ensures="""
            // a NaN rate is a validation error (the `rate <= 0.0` half of the test is a float comparison Verus leaves uninterpreted)
            f32_is_nan(rate) ==> r is Err && r->Err_0 is Validation,                                                   // OBL nan_rate_rejected
            // every other outcome is: the entry formatted with the weight computed from THIS rate and THIS generator,
            // and that very result returned - never unweighted, never with a stale or constant weight
            (r is Err && r->Err_0 is Validation)
              || (exists|n: u64| weight_of(rate, old(self).rng, n) && #[trigger] formatted_with(Some(n), r)),     // OBL weight_is_applied_as_multiplicity
         """),
]
POSTLUDE = "\n"
CANARY = None
