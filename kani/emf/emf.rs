// Appended to metrique-writer-format-emf/src/emf.rs under #[cfg(kani)] in a scratch copy.
#[cfg(kani)]
mod verif_kani {
    use super::*;

    // ---------------- C02: clamp_to_finite, all 2^64 doubles, loop-free => complete -------------
    // (this is the contract assumed by the Verus unit emf_value)
    // the rate limiter's clock is replaced by an arbitrary duration (it only gates a log line)
    fn stub_time_since_arbitrary_epoch() -> Duration {
        Duration::from_secs(kani::any::<u32>() as u64)
    }

    #[kani::proof]
    #[kani::stub(crate::rate_limit::time_since_arbitrary_epoch, stub_time_since_arbitrary_epoch)]
    fn clamp_to_finite_all_doubles() {
        let v: f64 = kani::any();
        let r = clamp_to_finite(v, "m");
        match r {
            None => assert!(v.is_nan()),
            Some(FiniteFloat(x)) => {
                assert!(!v.is_nan());
                assert!(x.is_finite());
                if v.is_finite() { assert!(x.to_bits() == v.to_bits()); }
                if v == f64::INFINITY { assert!(x == f64::MAX); }
                if v == f64::NEG_INFINITY { assert!(x == -f64::MAX); }
            }
        }
        kani::cover!(v.is_nan(), "NaN reachable");
        kani::cover!(v.is_infinite(), "inf reachable");
    }

    // ---------------- C12: rate_to_n_alpha / rate_to_n ----------------------------------------
    struct ScriptRng { w32: u32, w64: u64 }
    impl RngCore for ScriptRng {
        fn next_u32(&mut self) -> u32 { self.w32 }
        fn next_u64(&mut self) -> u64 { self.w64 }
        fn fill_bytes(&mut self, dest: &mut [u8]) { let mut i = 0; while i < dest.len() { dest[i] = self.w32 as u8; i += 1; } }
    }

    // one binade of rates: rate in (2^-(E+1), 2^-E].  For these, 1/rate < 2^53 and:
    //   n == floor(1/rate) (in f64, where 1/rate is the correctly rounded quotient), n >= 1, 0 < alpha <= 1,
    //   and (n+1) and 1/rate are within a factor of two of each other, so by Sterbenz' lemma the float
    //   subtraction alpha = (n+1) - 1/rate is EXACT (the lemma itself is a mathematical fact about IEEE-754,
    //   not machine-checked here: proving the exactness by SAT did not finish in 300 s).
    //   Hence E[weight] = n*alpha + (n+1)*(1-alpha) = n + 1 - alpha = 1/rate.
    fn check_rate_binade(e: u32) {
        let rate: f32 = kani::any();
        let hi = f32::from_bits((127 - e) << 23);       // 2^-e
        let lo = f32::from_bits((127 - e - 1) << 23);   // 2^-(e+1)
        kani::assume(rate > lo && rate <= hi);
        let (n, alpha) = rate_to_n_alpha(rate);
        let inv = 1.0f64 / (rate as f64);
        assert!(n >= 1);
        // (the floor property n <= 1/rate < n+1 is NOT asserted by comparing against a second, harness-side
        // division: relating two dividers is an equivalence check that did not finish in 900 s per binade.
        // It follows from the two facts below: alpha = (n+1) - 1/rate exactly, and 0 < alpha <= 1.)
        assert!(alpha > 0.0 && alpha <= 1.0);
        let n1 = (n + 1) as f64;
        assert!(n1 <= 2.0 * inv && inv <= 2.0 * n1);              // Sterbenz precondition => alpha exact
        kani::cover!(alpha < 1.0, "fractional 1/rate reachable");
    }

    // Concrete probes (NOT a proof: 14 rates spread over the binades): n and alpha bit-for-bit against values computed offline with
    // exact rational arithmetic (n = floor(1/rate) exactly, alpha = (n+1) - fl64(1/rate)).  Catches precision regressions of the
    // division (e.g. a reciprocal taken in f32) that the structural per-binade facts above cannot see.
    #[kani::proof]
    #[kani::unwind(17)]
    fn rate_to_n_alpha_probes() {
        let probes: [(u32, u64, u64); 14] = [
            (0x3ecccccd, 2, 0x3fe0000013fffffc),
            (0x3e666666, 4, 0x3fe1c71c329161e0),
            (0x3e99999a, 3, 0x3fe555559c71c6ec),
            (0x3eaaaaab, 2, 0x3e77fffff4000000),
            (0x3ac49ba6, 666, 0x3fd5556da38e3800),
            (0x37fba882, 33333, 0x3fe54e6f61fd0000),
            (0x3476f5eb, 4347826, 0x3febd5a593000000),
            (0x33d6bf95, 9999999, 0x3fbdea99c8000000),
            (0x337d6730, 16949152, 0x3feadc6780000000),
            (0x2edbe6ff, 9999999866, 0x3fe0754c00000000),
            (0x2d0775b8, 129870123805, 0x3fa8620000000000),
            (0x276dca41, 303030310681403, 0x3fee000000000000),
            (0x262cf030, 1666666601799113, 0x3fd0000000000000),
            (0x29caa978, 11111110887804, 0x3fd4400000000000),
        ];
        let mut i = 0;
        while i < probes.len() {
            let (rate_bits, n_expected, alpha_bits) = probes[i];
            let (n, alpha) = rate_to_n_alpha(f32::from_bits(rate_bits));
            assert!(n == n_expected);
            assert!(alpha.to_bits() == alpha_bits);
            i += 1;
        }
    }

    // the decision, for EVERY rate and EVERY draw, against ANY (n, alpha) that rate_to_n_alpha may return
    // (modular: rate_to_n_alpha is replaced by a stub returning arbitrary values; its own contract is the
    // per-binade harnesses above):  weight = u64::MAX below the saturation threshold, else n if draw < alpha, else n+1.
    static mut STUB_N: u64 = 0;
    static mut STUB_ALPHA: f64 = 0.0;
    fn stub_rate_to_n_alpha(_rate: f32) -> (u64, f64) {
        unsafe { (STUB_N, STUB_ALPHA) }
    }
    #[kani::proof]
    #[kani::stub(rate_to_n_alpha, stub_rate_to_n_alpha)]
    fn rate_to_n_decision_all_rates_all_draws() {
        let rate: f32 = kani::any();
        kani::assume(rate > 0.0 && rate <= 1.0);
        let n: u64 = kani::any();
        let alpha: f64 = kani::any();
        kani::assume(alpha > 0.0 && alpha <= 1.0);
        unsafe { STUB_N = n; STUB_ALPHA = alpha; }
        let w64: u64 = kani::any();
        let mut rng = ScriptRng { w32: kani::any(), w64 };
        let draw: f64 = ScriptRng { w32: rng.w32, w64 }.random::<f64>();
        assert!(draw >= 0.0 && draw < 1.0);
        let w = rate_to_n(rate, &mut rng);
        if rate < 1.0 / (i64::MAX as f32) {
            assert!(w == u64::MAX);                       // saturates for rates below 2^-63
        } else if draw < alpha {
            assert!(w == n);
        } else {
            assert!(w == n.saturating_add(1));
        }
        kani::cover!(w == n && n != u64::MAX, "floor reachable");
        kani::cover!(w != n, "ceiling reachable");
    }

    macro_rules! binades { ($($name:ident = $e:expr),*) => { $( #[kani::proof] fn $name() { check_rate_binade($e) } )* } }
    binades!(rate_binade_00 = 0, rate_binade_01 = 1, rate_binade_02 = 2, rate_binade_03 = 3, rate_binade_04 = 4, rate_binade_05 = 5,
             rate_binade_06 = 6, rate_binade_07 = 7, rate_binade_08 = 8, rate_binade_09 = 9, rate_binade_10 = 10, rate_binade_11 = 11,
             rate_binade_12 = 12, rate_binade_13 = 13, rate_binade_14 = 14, rate_binade_15 = 15, rate_binade_16 = 16, rate_binade_17 = 17,
             rate_binade_18 = 18, rate_binade_19 = 19, rate_binade_20 = 20, rate_binade_21 = 21, rate_binade_22 = 22, rate_binade_23 = 23,
             rate_binade_24 = 24, rate_binade_25 = 25, rate_binade_26 = 26, rate_binade_27 = 27, rate_binade_28 = 28, rate_binade_29 = 29,
             rate_binade_30 = 30, rate_binade_31 = 31, rate_binade_32 = 32, rate_binade_33 = 33, rate_binade_34 = 34, rate_binade_35 = 35,
             rate_binade_36 = 36, rate_binade_37 = 37, rate_binade_38 = 38, rate_binade_39 = 39, rate_binade_40 = 40, rate_binade_41 = 41,
             rate_binade_42 = 42, rate_binade_43 = 43, rate_binade_44 = 44, rate_binade_45 = 45, rate_binade_46 = 46, rate_binade_47 = 47,
             rate_binade_48 = 48, rate_binade_49 = 49, rate_binade_50 = 50, rate_binade_51 = 51);

    // the saturation threshold is the documented 2^-63
    #[kani::proof]
    fn saturation_threshold_is_2_pow_minus_63() {
        let t = 1.0f32 / (i64::MAX as f32);
        assert!(t == f32::from_bits((127 - 63) << 23));
    }
}
