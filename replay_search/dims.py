import os
from . import common

_cache = {}


def search(prop, unit_result, failure, log):
    repo = unit_result.get("repo", "/repo")
    if repo not in _cache:
        _cache[repo] = common.run_native(repo, "metrique-writer", "verif_replay_dims",
                                         os.path.join(common.ROOT, "replay_search", "native", "dims.rs"), log)
    r = _cache[repo]
    how = ("copy /verif/replay_search/native/dims.rs to metrique-writer/tests/ of the tree under test and run "
           "`cargo test --offline -p metrique-writer --test dims -- --nocapture`")
    if r["failing_input"]:
        return {"failing_input": r["failing_input"], "replay_native": {"failure": r["failure"], "cmd": r["cmd"]}, "how_to_replay": how}
    return {"failing_input": None, "replay_native": {"searched": r["searched"], "rc": r["rc"], "tail": r["tail"][-800:]}, "how_to_replay": how}
