"""Unit `dims` (C15): the dimension-appending wrappers - per-value dimensions (metrique-writer-core/src/value/dimensions.rs:
`Wrapper` as ValueWriter / Value / EntryWriter, <WithDimensions as Value>::write) and global dimensions
(metrique-writer/src/entry/dimensions.rs: ValueWriterWrapper, ValueWrapper, EntryWriterWrapper with the deny-list).

Proved: a metric reaches the wrapped writer with the SAME distribution, unit and flags and with the wrapper's dimensions appended
AFTER the dimensions it already had, in order; strings and errors pass through untouched; through the entry writers every value is
forwarded under the same name with that decoration (global: except deny-listed names, which pass through undecorated), timestamps
and configs untouched.

Iterator vocabulary (assumed; std's documented meaning over element sequences): `map` with the closure's contract, `chain` as
concatenation.  One exact-text rewrite:
  D2  SLICE.iter().map(|(c, i)| (&**c, &**i))  ->  verif_cow_pairs(SLICE)   one (&str, &str) per (CowStr, CowStr), same text, in order
      (`&**c` goes through Cow's Deref, which the stand-in CowStr does not model)
The reborrowing closure `|(k, v)| (k, v)` is kept and carries a contract (closure #1)."""
from units import forceflag as _f

NAME = "dims"
PROPERTIES = ["C15"]
CORE = "metrique-writer-core/src/value/dimensions.rs"
GLOB = "metrique-writer/src/entry/dimensions.rs"


def d2_cow_pairs(text):
    """D2: PLACE.iter().map(|(c, i)| (&**c, &**i)) -> verif_cow_pairs(PLACE)"""
    import re
    pat = r"\b(self\.[a-z_]+)\s*\.iter\(\)\s*\.map\(\|\(c, i\)\| \(&\*\*c, &\*\*i\)\)"
    n = len(re.findall(pat, text))
    return re.sub(pat, r"verif_cow_pairs(\1)", text), n


PRELUDE = _f._P + r'''
pub type CowStr = Cow<'static, str>;
pub open spec fn cow_dims(s: Seq<(CowStr, CowStr)>) -> Seq<(Seq<char>, Seq<char>)> { s.map_values(|p: (CowStr, CowStr)| (cow_text(p.0), cow_text(p.1))) }
// C15: what appending the dimensions `extra` does to one value-writer call - a metric keeps its distribution, unit and flags and
// gets `extra` AFTER the dimensions it already has; strings and errors are untouched
pub open spec fn with_dims(c: VCall, extra: Seq<(Seq<char>, Seq<char>)>) -> VCall {
    match c {
        VCall::Metric(d, u, m, fl) => VCall::Metric(d, u, m + extra, fl),
        VCall::String(s) => VCall::String(s),
        VCall::Error(e) => VCall::Error(e),
    }
}
pub open spec fn dims_item(i: Item, extra: Seq<(Seq<char>, Seq<char>)>) -> Item {
    match i { Item::Value(n, c) => Item::Value(n, with_dims(c, extra)), Item::Timestamp(t) => Item::Timestamp(t), Item::Config(c) => Item::Config(c) }
}
pub open spec fn dims_item_unless(i: Item, extra: Seq<(Seq<char>, Seq<char>)>, deny: Set<Seq<char>>) -> Item {
    match i { Item::Value(n, c) => if deny.contains(n) { i } else { Item::Value(n, with_dims(c, extra)) }, Item::Timestamp(t) => Item::Timestamp(t), Item::Config(c) => Item::Config(c) }
}
// ---- iterator adapters (std, restated over element sequences) ---------------------------------------------------------
#[verifier::external_body] #[verifier::reject_recursive_types(T)] pub struct VerifSeqIter<T> { _p: core::marker::PhantomData<T> }
impl<T> VerifSeqIter<T> { pub uninterp spec fn left(&self) -> Seq<T>; }
impl<T> Iterator for VerifSeqIter<T> {
    type Item = T;
    open spec fn rest(&self) -> Seq<T> { self.left() }
    #[verifier::external_body] fn next(&mut self) -> (r: Option<T>) { unimplemented!() }
    #[verifier::external_body] fn size_hint(&self) -> (r: (usize, Option<usize>)) { unimplemented!() }
    #[verifier::external_body] fn collect<B: FromIterator<T>>(self) -> (r: B) { unimplemented!() }
}
// an iterator is its own IntoIterator (std blanket impl)
impl<T> IntoIterator for VerifSeqIter<T> {
    type Item = T;
    type IntoIter = VerifSeqIter<T>;
    open spec fn elems(&self) -> Seq<T> { self.left() }
    fn into_iter(self) -> (r: VerifSeqIter<T>) { self }
}
pub trait IteratorExt: Iterator {
    fn map<B, F: FnMut(Self::Item) -> B>(self, f: F) -> (r: VerifSeqIter<B>)
        requires forall|x: Self::Item| #[trigger] f.requires((x,)),
        ensures r.left().len() == self.rest().len(),
                forall|i: int| 0 <= i < self.rest().len() ==> f.ensures((self.rest()[i],), #[trigger] r.left()[i]);
    fn chain<U: IntoIterator<Item = Self::Item>>(self, other: U) -> (r: VerifSeqIter<Self::Item>)
        ensures r.left() == self.rest() + other.elems();
}
impl<I: Iterator> IteratorExt for I {
    #[verifier::external_body] fn map<B, F: FnMut(I::Item) -> B>(self, f: F) -> (r: VerifSeqIter<B>) { unimplemented!() }
    #[verifier::external_body] fn chain<U: IntoIterator<Item = I::Item>>(self, other: U) -> (r: VerifSeqIter<I::Item>) { unimplemented!() }
}
// D2: slice.iter().map(|(c, i)| (&**c, &**i))
#[verifier::external_body]
pub fn verif_cow_pairs<'s>(s: &'s [(CowStr, CowStr)]) -> (r: VerifSeqIter<(&'s str, &'s str)>)
    ensures dims_view(r.left()) == cow_dims(s@)
{ unimplemented!() }
// std::collections::HashSet<CowStr> (the deny-list): membership by text
#[verifier::external_body] #[verifier::reject_recursive_types(T)] pub struct HashSet<T> { _p: core::marker::PhantomData<T> }
impl HashSet<CowStr> {
    pub uninterp spec fn texts(&self) -> Set<Seq<char>>;
    #[verifier::external_body]
    pub fn contains(&self, name: &Cow<'_, str>) -> (r: bool) ensures r == self.texts().contains(cow_text(*name)) { unimplemented!() }
}
// the forwarding impl for references (verified in unit `wrappers`; assumed here)
impl<T: Value + ?Sized> Value for &T {
    open spec fn call(&self) -> VCall { (**self).call() }
    #[verifier::external_body]
    fn write<VerifI0: ValueWriter>(&self, writer: VerifI0) { unimplemented!() }
}
'''

def d3_smallvec_slice(text):
    """D3: &self.FIELD (a SmallVec viewed as a slice by deref coercion) -> self.FIELD.as_slice()"""
    import re
    pat = r"&self\.(dimensions|global_dimensions)\b(?!_)"
    n = len(re.findall(pat, text))
    return re.sub(pat, r"self.\1.as_slice()", text), n


_CW = r"^impl < W : ValueWriter > ValueWriter for Wrapper < '_ , W >$"
_CV = r"^impl < V : Value > Value for Wrapper < '_ , V >$"
_CE = r"^impl < 'a , W : EntryWriter < 'a >> EntryWriter < 'a > for Wrapper < '_ , W >$"
_WD = r"^impl < V , const N : usize > WithDimensions < V , N >$"
_WDV = r"^impl < V : Value , const N : usize > Value for WithDimensions < V , N >$"
# global dimensions (metrique-writer)
_GIN_E = (r"^impl < E : Entry , const N : usize > Entry for WithGlobalDimensions < E , N >$", "write")
_GIN_V = (r"^impl < V : Value > Value for ValueWrapper < '_ , V >$", "write")
_GW = r"^impl < W : ValueWriter > ValueWriter for ValueWriterWrapper < '_ , W >$"
_GE = r"^impl < 'a , W : EntryWriter < 'a >> EntryWriter < 'a > for EntryWriterWrapper < '_ , W >$"
_METRIC_PROOF = lambda field, dimsfield, argname: [
    ("start", None, "let ghost verif_f0 = flag_id($arg3); let ghost verif_u0 = $arg1; let ghost verif_d0 = $arg0.elems(); let ghost verif_m0 = dims_view(%(a)s.elems());" % dict(a=argname)),
    ("end", None, """proof {
        let extra = cow_dims(self.%(d)s@);
        let (d, m) = choose|d: Seq<Observation>, m: Seq<(Seq<char>, Seq<char>)>| self.%(f)s.got(#[trigger] mk_metric(d, verif_u0, m, verif_f0))
            && d =~= verif_d0 && m =~= verif_m0 + extra;
        assert(with_dims(mk_metric(d, verif_u0, verif_m0, verif_f0), extra) == mk_metric(d, verif_u0, verif_m0 + extra, verif_f0));
        assert(m =~= verif_m0 + extra);
        assert(self.got(mk_metric(d, verif_u0, verif_m0, verif_f0)));
     }""" % dict(f=field, d=dimsfield, a=argname))]
_CL = {1: dict(params="verif_kv: (&'a str, &'a str)", destructure=("(k, v)", "verif_kv"), ret="(o: (&str, &str))", ensures="o == verif_kv,")}

ITEMS = [
    # ---- per-value dimensions (metrique-writer-core)
    dict(kind="struct", file=CORE, name="Wrapper", attrs=["#[verifier::reject_recursive_types(V)]"]),
    dict(kind="fn", file=CORE, impl=_CW, name="string", label="dimensions::Wrapper::string",
         impl_extra="    open spec fn usable(self) -> bool { self.value.usable() }\n"
                    "    // C15: what reaches the wrapped writer is the call with this wrapper's dimensions appended\n"
                    "    open spec fn got(self, c: VCall) -> bool { self.value.got(with_dims(c, cow_dims(self.dimensions@))) }\n"),
    dict(kind="fn", file=CORE, impl=_CW, name="metric", label="dimensions::Wrapper::metric", impl_trait_args=True,
         rules={"R14": 2, "d2_cow_pairs": 1}, pre_rewrites=[d2_cow_pairs], unpinned=["d2_cow_pairs"], closures=_CL,
         proofs=_METRIC_PROOF("value", "dimensions", "$arg2")),
    dict(kind="fn", file=CORE, impl=_CW, name="error", label="dimensions::Wrapper::error"),
    dict(kind="fn", file=CORE, impl=_CV, name="write", label="<dimensions::Wrapper as Value>::write", impl_trait_args=True, rules={"R14": 1},
         impl_extra="    open spec fn call(&self) -> VCall { with_dims(self.value.call(), cow_dims(self.dimensions@)) }\n"),
    dict(kind="fn", file=CORE, impl=_CE, name="timestamp", label="<dimensions::Wrapper as EntryWriter>::timestamp",
         impl_extra="    open spec fn log(&self) -> Seq<Item> { self.value.log() }\n"
                    "    // C15: every value written through the wrapper reaches the wrapped writer with the dimensions appended; nothing else changes\n"
                    "    open spec fn item_tr(&self, i: Item) -> Item { self.value.item_tr(dims_item(i, cow_dims(self.dimensions@))) }\n"),
    dict(kind="fn", file=CORE, impl=_CE, name="value", label="<dimensions::Wrapper as EntryWriter>::value", impl_trait_args=True, rules={"R14": 2}),
    dict(kind="fn", file=CORE, impl=_CE, name="config", label="<dimensions::Wrapper as EntryWriter>::config"),
    dict(kind="struct", file=CORE, name="WithDimensions", attrs=["#[verifier::reject_recursive_types(V)]", "#[verifier::reject_recursive_types(N)]"]),
    dict(kind="fn", file=CORE, impl=_WD, name="dimensions", ret="r", label="WithDimensions::dimensions", rules={"d3_smallvec_slice": 1}, extra_rewrites=[d3_smallvec_slice],
         ensures="r@ == self.dimensions.content(),"),
    dict(kind="fn", file=CORE, impl=_WDV, name="write", label="<WithDimensions as Value>::write", impl_trait_args=True, rules={"R14": 1},
         impl_extra="    // C15: a value with dimensions reports what the plain value reports, with its dimensions appended\n"
                    "    open spec fn call(&self) -> VCall { with_dims(self.value.call(), cow_dims(self.dimensions.content())) }\n"),
    # ---- global dimensions (metrique-writer)
    dict(kind="struct", file=GLOB, name="ValueWrapper", attrs=["#[verifier::reject_recursive_types(V)]"]),
    dict(kind="struct", file=GLOB, name="ValueWriterWrapper", inside_fn=_GIN_V, attrs=["#[verifier::reject_recursive_types(W)]"]),
    dict(kind="struct", file=GLOB, name="EntryWriterWrapper", inside_fn=_GIN_E, attrs=["#[verifier::reject_recursive_types(W)]"]),
    dict(kind="fn", file=GLOB, inside_fn=_GIN_V, impl=_GW, name="string", label="ValueWriterWrapper::string",
         impl_extra="    open spec fn usable(self) -> bool { self.writer.usable() }\n"
                    "    // C15: what reaches the wrapped writer is the call with the global dimensions appended after the existing ones\n"
                    "    open spec fn got(self, c: VCall) -> bool { self.writer.got(with_dims(c, cow_dims(self.global_dimensions@))) }\n"),
    dict(kind="fn", file=GLOB, inside_fn=_GIN_V, impl=_GW, name="metric", label="ValueWriterWrapper::metric", impl_trait_args=True,
         rules={"R14": 2, "d2_cow_pairs": 1}, pre_rewrites=[d2_cow_pairs], unpinned=["d2_cow_pairs"], closures=_CL,
         proofs=_METRIC_PROOF("writer", "global_dimensions", "$arg2")),
    dict(kind="fn", file=GLOB, inside_fn=_GIN_V, impl=_GW, name="error", label="ValueWriterWrapper::error"),
    dict(kind="fn", file=GLOB, impl=_GIN_V[0], name="write", label="<ValueWrapper as Value>::write", impl_trait_args=True, rules={"R14": 1}, nested_items_dropped=True,
         impl_extra="    open spec fn call(&self) -> VCall { with_dims(self.value.call(), cow_dims(self.global_dimensions@)) }\n"),
    dict(kind="fn", file=GLOB, inside_fn=_GIN_E, impl=_GE, name="timestamp", label="EntryWriterWrapper::timestamp",
         impl_extra="    open spec fn log(&self) -> Seq<Item> { self.writer.log() }\n"
                    "    // C15: every value reaches the wrapped writer under the same name with the global dimensions appended - except on\n"
                    "    // deny-listed names, which pass through undecorated; timestamps and configs are untouched\n"
                    "    open spec fn item_tr(&self, i: Item) -> Item {\n"
                    "        self.writer.item_tr(dims_item_unless(i, cow_dims(self.global_dimensions@), self.global_dimensions_denylist.texts()))\n"
                    "    }\n"),
    dict(kind="fn", file=GLOB, inside_fn=_GIN_E, impl=_GE, name="value", label="EntryWriterWrapper::value", impl_trait_args=True, rules={"R14": 2}),
    dict(kind="fn", file=GLOB, inside_fn=_GIN_E, impl=_GE, name="config", label="EntryWriterWrapper::config"),
]
POSTLUDE = ""
CANARY = dict(fn="dimensions::Wrapper::string", field="impl_extra", replace=("{ self.value.got(with_dims(c, cow_dims(self.dimensions@))) }", "{ self.value.got(c) }"))
