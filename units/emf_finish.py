"""Unit `emf_finish` (C02, C03, C08, C14, C16): EntryWriter::finish of the EMF formatter - the document assembly.
Extracted from metrique-writer-format-emf/src/emf.rs with R3b (for-loops desugared to loop/match over stand-in
iterators whose `next` yields arbitrary items) and R7."""
from units import emf_value, emf_validate

NAME = "emf_finish"


def r19_unix_epoch(text):
    n = text.count("SystemTime::UNIX_EPOCH")
    return text.replace("SystemTime::UNIX_EPOCH", "verif_unix_epoch()"), n

OUTER = emf_value.OUTER + "macro_rules! smallvec { ($($x:expr),* $(,)?) => { verif_smallvec(vec![$($x),*]) } }\n"
PROPERTIES = ["C02", "C03", "C08", "C14", "C16"]
EMF = "metrique-writer-format-emf/src/emf.rs"

PRELUDE = emf_validate.PRELUDE.replace('#[verifier::external_body] pub struct MetricsForDimensionSet { p: u8 }\n', '').replace('broadcast use tok_axioms::axiom_tok_len_pos;', 'broadcast use {tok_axioms::axiom_tok_len_pos, str_axioms::axiom_str_from};') + r'''
// ---- iteration stand-ins: `next` yields arbitrary items (the loop body is verified for ANY element) ----
pub trait VerifIntoIter { type It; fn vi(self) -> Self::It; }
pub fn verif_iter<T: VerifIntoIter>(t: T) -> T::It { t.vi() }
#[verifier::external_body]
#[verifier::reject_recursive_types(K)]
#[verifier::reject_recursive_types(V)]
pub struct IterMut<'a, K, V> { p: core::marker::PhantomData<&'a mut (K, V)> }
#[verifier::external_body]
#[verifier::reject_recursive_types(K)]
#[verifier::reject_recursive_types(V)]
pub struct ValuesMut<'a, K, V> { p: core::marker::PhantomData<&'a mut (K, V)> }
impl<'a, K, V> IterMut<'a, K, V> {
    #[verifier::external_body] pub fn next(&mut self) -> Option<(&'a K, &'a mut V)> { unimplemented!() }
}
impl<'a, K, V> ValuesMut<'a, K, V> {
    #[verifier::external_body] pub fn next(&mut self) -> Option<&'a mut V> { unimplemented!() }
}
impl<'a, K, V> VerifIntoIter for IterMut<'a, K, V> { type It = IterMut<'a, K, V>; fn vi(self) -> Self::It { self } }
impl<'a, K, V> VerifIntoIter for ValuesMut<'a, K, V> { type It = ValuesMut<'a, K, V>; fn vi(self) -> Self::It { self } }
impl<K, V> hashbrown::HashMap<K, V> {
    #[verifier::external_body] pub fn iter_mut<'a>(&'a mut self) -> IterMut<'a, K, V> { unimplemented!() }
    #[verifier::external_body] pub fn values_mut<'a>(&'a mut self) -> ValuesMut<'a, K, V> { unimplemented!() }
}
#[verifier::external_body]
#[verifier::reject_recursive_types(T)]
pub struct SliceIter<'a, T> { p: core::marker::PhantomData<&'a T> }
impl<'a, T> SliceIter<'a, T> {
    #[verifier::external_body] pub fn next(&mut self) -> Option<&'a T> { unimplemented!() }
}
impl<'a, T> VerifIntoIter for &'a [T] { type It = SliceIter<'a, T>; #[verifier::external_body] fn vi(self) -> Self::It { unimplemented!() } }
use std::mem;
pub assume_specification<T>[ std::mem::replace ](dest: &mut T, src: T) -> (r: T)
    ensures r == *old(dest), *final(dest) == src;
pub assume_specification<T: core::ops::Deref>[ core::option::Option::<T>::as_deref ](o: &core::option::Option<T>) -> (r: core::option::Option<&<T as core::ops::Deref>::Target>)
    ensures (r is None) == (o is None);
// ---- NonZero stand-in (as in unit emf_metric) ----
#[derive(Clone, Copy)]
pub struct NonZero<T> { pub v: T }
// ---- errors ----
pub struct IoErr { pub e: u8 }
pub enum IoStreamError { Validation(ValidationError), Io(IoErr) }
impl vstd::std_specs::convert::FromSpecImpl<ValidationError> for IoStreamError {
    open spec fn obeys_from_spec() -> bool { true }
    open spec fn from_spec(v: ValidationError) -> IoStreamError { IoStreamError::Validation(v) }
}
impl From<ValidationError> for IoStreamError { fn from(v: ValidationError) -> (r: IoStreamError) { IoStreamError::Validation(v) } }
impl vstd::std_specs::convert::FromSpecImpl<IoErr> for IoStreamError {
    open spec fn obeys_from_spec() -> bool { true }
    open spec fn from_spec(v: IoErr) -> IoStreamError { IoStreamError::Io(v) }
}
impl From<IoErr> for IoStreamError { fn from(v: IoErr) -> (r: IoStreamError) { IoStreamError::Io(v) } }
impl ValidationErrorBuilder {
    // build(): Ok iff no validation failure was recorded
    #[verifier::external_body]
    pub fn build(self) -> (r: Result<(), ValidationError>) ensures (r is Ok) == (self.count() == 0) { unimplemented!() }
}
// ---- the output: a ghost log of what reached the writer, one element per successful vectored write ----
pub mod io {
    use vstd::prelude::*;
    use super::Tok;
    pub trait Write { spec fn written(&self) -> Seq<Seq<Tok>>; }
    pub type Result<T> = core::result::Result<T, super::IoErr>;
}
pub uninterp spec fn bytes_toks(b: &[u8]) -> Seq<Tok>;
impl PrefixedStringBuf { pub open spec fn fresh(&self) -> bool { self.all().len() == self.prefix_n() } }
impl PrefixedStringBuf {
    #[verifier::external_body]
    pub fn as_ref(&self) -> (r: &[u8]) ensures bytes_toks(r) == self.all() { unimplemented!() }
    // copies its own bytes [start, end): token-level content left abstract
    #[verifier::external_body]
    pub fn extend_from_within_range(&mut self, start: usize, end: usize) -> (r: &mut Self)
        ensures final(r).all() == final(self).all(), final(r).prefix_n() == final(self).prefix_n(),
                r.all() == old(self).all() + within_toks(old(self).all(), start as int, end as int), r.prefix_n() == old(self).prefix_n(),
    { unimplemented!() }
    #[verifier::external_body]
    pub fn push_json_safe_string(&mut self, s: &JsonEncodedString) -> (r: &mut Self)
        ensures final(r).all() == final(self).all(), final(r).prefix_n() == final(self).prefix_n(),
                r.all() == old(self).all().push(Tok::Atom(0)), r.prefix_n() == old(self).prefix_n(),
    { unimplemented!() }
    #[verifier::external_body]
    pub fn push_json_safe_array(&mut self, s: &JsonEncodedArray) -> (r: &mut Self)
        ensures final(r).all() == final(self).all(), final(r).prefix_n() == final(self).prefix_n(),
                r.all() == old(self).all().push(Tok::Atom(1)), r.prefix_n() == old(self).prefix_n(),
    { unimplemented!() }
    // `],"Timestamp":` (or with the log group) followed by the timestamp numeral
    #[verifier::external_body]
    pub fn push_json_safe_log_group_and_timestamp(&mut self, s: &LogGroupNameAndTimestampString, timestamp_str: &str) -> (r: &mut Self)
        ensures final(r).all() == final(self).all(), final(r).prefix_n() == final(self).prefix_n(),
                r.all() == old(self).all().push(Tok::Atom(2)) + str_toks(timestamp_str), r.prefix_n() == old(self).prefix_n(),
    { unimplemented!() }
}
pub uninterp spec fn within_toks(all: Seq<Tok>, start: int, end: int) -> Seq<Tok>;
// `&s[i..]` on a str: the char-boundary panic is out of scope (after_namespace_index is set once, in build(), not verified)
pub mod str_axioms {
    use vstd::prelude::*;
    use vstd::std_specs::core::IndexSpec;
    pub broadcast axiom fn axiom_str_from(s: &str, r: core::ops::RangeFrom<usize>) ensures #[trigger] s.index_req(&r);
}
// ---- what the property says about the assembled document --------------------------------------------
pub open spec fn ends_with(c: Seq<Tok>, tail: Seq<Tok>) -> bool { c.len() >= tail.len() && c.skip(c.len() - tail.len()) =~= tail }
pub open spec fn nl() -> Seq<Tok> { str_toks("}\n") }
// every record handed to the writer since `from` ends with the newline-terminated closing brace
pub open spec fn all_framed(w: Seq<Seq<Tok>>, from: int) -> bool { forall|i: int| from <= i < w.len() ==> ends_with(#[trigger] w[i], nl()) }
// the dimension part of the entry's own record is built from scratch: only commas and encoded dimension arrays after the prefix
pub open spec fn dim_tokens(t: Seq<Tok>, from: int) -> bool { forall|i: int| from <= i < t.len() ==> (#[trigger] t[i] == Tok::Ch(',') || t[i] == Tok::Atom(1)) }

#[verifier::external_body]
#[verifier::reject_recursive_types(A)]
pub struct SmallVec<A> { p: core::marker::PhantomData<A> }
impl<A> SmallVec<A> { pub uninterp spec fn chunks(&self) -> Seq<Seq<Tok>>; }
#[verifier::external_body]
pub fn verif_smallvec<'a, const N: usize>(v: Vec<&'a [u8]>) -> (r: SmallVec<[&'a [u8]; N]>)
    ensures r.chunks() == v@.map_values(|b: &[u8]| bytes_toks(b)),
{ unimplemented!() }
pub open spec fn concat(c: Seq<Seq<Tok>>) -> Seq<Tok> decreases c.len() {
    if c.len() == 0 { Seq::<Tok>::empty() } else { concat(c.drop_last()) + c.last() }
}
// write_all_vectored (buf.rs; this contract is discharged on the real retry loop in unit emf_wav, C16): on success the writer received exactly the
// concatenation of the buffers, once; on failure it received some prefix of it (not recorded here)
#[verifier::external_body]
pub fn write_all_vectored<V, const N: usize>(bufs: SmallVec<[V; N]>, output: &mut impl io::Write) -> (r: io::Result<()>)
    ensures r is Ok ==> final(output).written() == old(output).written().push(concat(bufs.chunks())),
            r is Err ==> final(output).written() == old(output).written(),
{ unimplemented!() }
// ---- time ----
#[verifier::external_body] #[derive(Clone, Copy)] pub struct Duration { p: u8 }
impl Duration {
    pub uninterp spec fn millis(&self) -> int;
    #[verifier::external_body] pub fn as_millis(&self) -> (r: u128) ensures r == self.millis() { unimplemented!() }
}
impl Default for Duration { #[verifier::external_body] fn default() -> (r: Duration) ensures r.millis() == 0 { unimplemented!() } }
pub assume_specification<T: Default, E>[ core::result::Result::<T, E>::unwrap_or_default ](r: core::result::Result<T, E>) -> (o: T)
    ensures r is Ok ==> o == r->Ok_0, r is Err ==> call_ensures(T::default, (), o);
pub uninterp spec fn epoch_millis(t: SystemTime) -> int;   // whole milliseconds since the Unix epoch (0 if before it)
pub struct TimeErr { pub e: u8 }
impl SystemTime {
    #[verifier::external_body] pub fn now() -> SystemTime { unimplemented!() }
    #[verifier::external_body]
    pub fn duration_since(&self, earlier: SystemTime) -> (r: Result<Duration, TimeErr>)
        ensures r is Ok ==> r->Ok_0.millis() == epoch_millis(*self), r is Err ==> epoch_millis(*self) == 0,
    { unimplemented!() }
}
#[verifier::external_body] pub fn verif_unix_epoch() -> SystemTime { unimplemented!() }
'''

ITEMS = [
    dict(kind="struct", file=EMF, name="LineKind"),
    dict(kind="struct", file=EMF, name="LineData"),
    dict(kind="struct", file=EMF, name="Validation"),
    dict(kind="struct", file=EMF, name="MetricsForDimensionSet"),
    dict(kind="struct", file=EMF, name="State"),
    dict(kind="struct", file=EMF, name="EntryWriter"),
    dict(kind="fn", file=EMF, impl=r"^impl EntryWriter < '_ >$", name="finish", ret="r", label="EntryWriter::finish",
         attrs=["#[verifier::exec_allows_no_decreases_clause]"],
         desugar_for=True, desugar_question=True, rules={"R7": 1, "R3b": 5, "R20": 3, "r19_unix_epoch": 1}, n_loops=5, extra_rewrites=[r19_unix_epoch],
         requires="""
            self.state.namespaces@.len() >= 1,
            self.state.dimensions_buf.wf(), self.state.fields_buf.wf(), self.state.metrics_buf.wf(), self.state.decl_buf.wf(), self.state.string_fields_buf.wf(),
         """,
         ensures="""
            // C02 / C08: a validation error means NOTHING was written; and recorded validation failures are always reported
            (r is Err && r->Err_0 is Validation) ==> final(output).written() == old(output).written(),                 // OBL validation_error_writes_nothing
            self.error.count() > 0 ==> (r is Err && r->Err_0 is Validation),                                           // OBL recorded_failures_are_reported
            // C02: every record handed to the writer is newline-framed (ends with the `}\\n` pushed to the string fields)
            all_framed(final(output).written(), old(output).written().len() as int),                                   // OBL records_are_newline_framed
            old(output).written().is_prefix_of(final(output).written()),
            // C03: on success at least one record is written (life sign), and the entry's own values are never lost:
            // if the entry has values outside any dimension set, the last record is its own record and carries them
            r is Ok ==> final(output).written().len() > old(output).written().len(),                                   // OBL at_least_one_record
            (r is Ok && !old(self.state).fields_buf.fresh()) ==>
                final(output).written().last() == final(self.state).dimensions_buf.all() + final(self.state).metrics_buf.all()
                    + final(self.state).decl_buf.all() + old(self.state).fields_buf.all() + final(self.state).string_fields_buf.all(),   // OBL own_values_are_in_the_own_record
            // C14: when the own record is written its dimension part is rebuilt from the prefix (no stale content)
            (r is Ok && !old(self.state).fields_buf.fresh()) ==>
                dim_tokens(final(self.state).dimensions_buf.all(), final(self.state).dimensions_buf.prefix_n() as int),                                                    // OBL dimensions_buf_rebuilt
         """,
         loops={
             1: """invariant
                    output.written() == old(output).written(), *__s.state == *old(self.state),
                    __s.error.count() >= self.error.count(), __s.timestamp == self.timestamp,""",
             2: """invariant
                    self.error.count() == 0,
                    all_framed(output.written(), old(output).written().len() as int), old(output).written().is_prefix_of(output.written()),
                    emitted_any_dimension_metrics ==> output.written().len() > old(output).written().len(),
                    __s.state.string_fields_buf.all() == verif_sf1, ends_with(verif_sf1, nl()),
                    __s.state.namespaces@.len() >= 1,
                    __s.state.fields_buf == old(self.state).fields_buf, __s.state.metrics_buf == old(self.state).metrics_buf,
                    __s.state.dimensions_buf == old(self.state).dimensions_buf, __s.state.decl_buf == verif_decl1,
                    __s.state.dimensions_buf.wf(), __s.state.metrics_buf.wf(),""",
             3: """invariant
                    self.error.count() == 0,
                    __s.state.string_fields_buf.all() == verif_sf1, __s.state.namespaces@.len() >= 1,
                    __s.state.fields_buf == old(self.state).fields_buf, __s.state.metrics_buf == old(self.state).metrics_buf,
                    __s.state.dimensions_buf == old(self.state).dimensions_buf, __s.state.decl_buf == verif_decl1,
                    output.written() == verif_w_in,""",
             4: """invariant
                    __s.state.dimensions_buf.prefix_n() == old(self.state).dimensions_buf.prefix_n(), __s.state.dimensions_buf.wf(),
                    dim_tokens(__s.state.dimensions_buf.all(), __s.state.dimensions_buf.prefix_n() as int),
                    __s.state.string_fields_buf.all() == verif_sf1, __s.state.namespaces@.len() >= 1,
                    __s.state.fields_buf == old(self.state).fields_buf, __s.state.metrics_buf == old(self.state).metrics_buf, __s.state.decl_buf == verif_decl1,
                    output.written() == verif_w2,""",
             5: """invariant
                    __s.state.dimensions_buf == verif_dim2,
                    __s.state.string_fields_buf.all() == verif_sf1, __s.state.namespaces@.len() >= 1,
                    __s.state.fields_buf == old(self.state).fields_buf, __s.state.decl_buf == verif_decl1,
                    output.written() == verif_w2,""",
         },
         proofs=[
             ("before", "let mut emitted_any_dimension_metrics", "let ghost verif_sf1 = __s.state.string_fields_buf.all(); let ghost verif_decl1 = __s.state.decl_buf; proof { assert(ends_with(verif_sf1, nl())); }"),
             ("before", "entry . metrics_buf . push_raw_str ( \"]}\" ) ;", "let ghost verif_w_in = output.written();"),
             ("before", "if ! emitted_any_dimension_metrics ||", "let ghost verif_w2 = output.written();"),
             ("before", "__s . state . metrics_buf . push_raw_str ( \"]}\" ) ;", "let ghost verif_dim2 = __s.state.dimensions_buf;"),
             ("before", "Ok ( ( ) )", """proof {
                    reveal_with_fuel(concat, 6);
                    if !self.state.fields_buf.fresh() {
                        let c = seq![__s.state.dimensions_buf.all(), __s.state.metrics_buf.all(), __s.state.decl_buf.all(), __s.state.fields_buf.all(), __s.state.string_fields_buf.all()];
                        assert(c.drop_last().drop_last().drop_last().drop_last().drop_last() =~= Seq::<Seq<Tok>>::empty());
                        assert(concat(c) =~= c[0] + c[1] + c[2] + c[3] + c[4]);
                    }
                 }"""),
         ]),
]
POSTLUDE = "\n"
CANARY = dict(fn="EntryWriter::finish", replace=("r is Ok ==> final(output).written().len() > old(output).written().len(),", "r is Ok ==> final(output).written().len() == old(output).written().len(),"))
