"""Unit `mrs_hist` (C20): the bridge's histogram cell (metrique-metricsrs/src/metrics_histogram.rs): record, drain, midpoint.
Same shape as unit hist_exp: the `histogram` dependency is a stand-in with an opaque bucket list; the iterator adapters carry
the closures' contracts.  Proved: record makes exactly one add of the value with count 1; drain reports exactly one
Bucket { value: midpoint of the range, count } per non-empty bucket of the atomic snapshot, in bucket order."""
import re

NAME = "mrs_hist"
PROPERTIES = ["C20"]
SCREEN_FLOAT_CASTS = True
MH = "metrique-metricsrs/src/metrics_histogram.rs"


def _stmt(name, old, new, doc):
    def f(text):
        n = text.count(old)
        return text.replace(old, new), n
    f.__name__ = name
    f.__doc__ = doc
    return f


h1 = _stmt("h1_collect", ".collect::<Vec<_>>()", ".collect()", "H1: turbofish dropped (the stand-in collect returns Vec)")

def rf_u32_as_f64(text):
    """RF': PLACE as f64 (a u32 field) -> verif_u32_as_f64(PLACE): the cast is an opaque function of its operand"""
    pat = r"\b([a-z_][a-z_0-9]*(?:\.[a-z_][a-z_0-9]*)*) as f64\b"
    n = len(re.findall(pat, text))
    return re.sub(pat, r"verif_u32_as_f64(\1)", text), n


PRELUDE = r'''
use vstd::std_specs::ops::MulSpec;
pub mod float_axioms {
    use vstd::prelude::*;
    use vstd::std_specs::ops::MulSpec;
    // float multiplication never panics and is a deterministic function of its operands (result opaque)
    pub broadcast axiom fn f64_mul_req(a: f64, b: f64) ensures #[trigger] a.mul_req(b);
    pub broadcast axiom fn f64_mul_obeys(a: f64, b: f64) ensures <f64 as MulSpec<f64>>::obeys_mul_spec() || #[trigger] a.mul_spec(b) != a.mul_spec(b);
}
pub mod mul_bounds {
    use vstd::prelude::*;
    // nonlinear fact z3 does not find unprompted: the product of two 32-bit quantities fits 64 bits (so widening before
    // multiplying is not reported as a possible overflow)
    pub broadcast proof fn lemma_mul_u32_fits_u64(x: int, y: int)
        requires 0 <= x <= u32::MAX, 0 <= y <= u32::MAX,
        ensures 0 <= #[trigger] (x * y) <= 0xFFFF_FFFE_0000_0001,
    { assert(0 <= x * y <= 0xFFFF_FFFE_0000_0001) by(nonlinear_arith) requires 0 <= x <= 0xFFFF_FFFF, 0 <= y <= 0xFFFF_FFFF; }
}
pub uninterp spec fn u32_as_f64(x: u32) -> f64;
#[verifier::external_body]
pub fn verif_u32_as_f64(x: u32) -> (r: f64) ensures r == u32_as_f64(x) { unimplemented!() }
pub struct BucketAbs { pub count: u64, pub start: u64, pub end: u64 }
pub mod histogram {
    use vstd::prelude::*;
    use super::BucketAbs;
    #[verifier::external_body] pub struct Config { _p: u8 }
    #[verifier::external_body] pub struct Error { _p: u8 }
    impl core::fmt::Debug for Error { #[verifier::external_body] fn fmt(&self, f: &mut core::fmt::Formatter<'_>) -> core::fmt::Result { unimplemented!() } }
    #[verifier::external_body] pub struct Histogram { _p: u8 }
    #[verifier::external_body] #[derive(Clone, Copy)] pub struct Bucket { _p: u8 }
    #[verifier::external_body] pub struct AtomicHistogram { _p: u8 }
    pub uninterp spec fn added(h: &AtomicHistogram, value: u64, count: u64) -> bool;
    impl AtomicHistogram {
        pub uninterp spec fn snapshot(&self) -> Seq<Bucket>;
        // layout (4, 32): every value that fits 32 bits is accepted
        #[verifier::external_body]
        pub fn add(&self, value: u64, count: u64) -> (r: Result<(), Error>)
            ensures value <= u32::MAX ==> r is Ok, r is Ok ==> added(self, value, count),
        { unimplemented!() }
        #[verifier::external_body]
        pub fn drain(&self) -> (r: Histogram) ensures r.buckets() == self.snapshot() { unimplemented!() }
    }
    impl Histogram {
        pub uninterp spec fn buckets(&self) -> Seq<Bucket>;
        #[verifier::external_body]
        pub fn into_iter(self) -> (r: BucketIter) ensures r.elems() == self.buckets() { unimplemented!() }
    }
    impl Bucket {
        pub uninterp spec fn abs(&self) -> BucketAbs;
        #[verifier::external_body] pub fn count(&self) -> (r: u64) ensures r == self.abs().count { unimplemented!() }
        #[verifier::external_body] pub fn range(&self) -> (r: super::RangeInclusive<u64>)
            ensures r.lo() == self.abs().start, r.hi() == self.abs().end, r.lo() <= r.hi() { unimplemented!() }
    }
    #[verifier::external_body] pub struct BucketIter { _p: u8 }
    #[verifier::external_body] #[verifier::reject_recursive_types(O)] pub struct MapIter<O> { _p: core::marker::PhantomData<O> }
    impl BucketIter {
        pub uninterp spec fn elems(&self) -> Seq<Bucket>;
        #[verifier::external_body]
        pub fn filter<F: Fn(&Bucket) -> bool>(self, f: F) -> (r: BucketIter)
            requires forall|b: Bucket| #[trigger] f.requires((&b,)),
            ensures exists|kept: spec_fn(Bucket) -> bool| (forall|b: Bucket| f.ensures((&b,), #[trigger] kept(b))) && r.elems() == self.elems().filter(kept),
        { unimplemented!() }
        #[verifier::external_body]
        pub fn map<O, G: Fn(Bucket) -> O>(self, g: G) -> (r: MapIter<O>)
            requires forall|b: Bucket| #[trigger] g.requires((b,)),
            ensures r.elems().len() == self.elems().len(),
                    forall|i: int| 0 <= i < self.elems().len() ==> g.ensures((self.elems()[i],), #[trigger] r.elems()[i]),
        { unimplemented!() }
    }
    impl<O> MapIter<O> {
        pub uninterp spec fn elems(&self) -> Seq<O>;
        #[verifier::external_body]
        pub fn collect(self) -> (r: Vec<O>) ensures r@ == self.elems() { unimplemented!() }
    }
}
// std::ops::RangeInclusive<u64> (stand-in)
#[verifier::external_body] #[verifier::reject_recursive_types(T)] pub struct RangeInclusive<T> { _p: core::marker::PhantomData<T> }
impl RangeInclusive<u64> {
    pub uninterp spec fn lo(&self) -> u64;
    pub uninterp spec fn hi(&self) -> u64;
    #[verifier::external_body] pub fn start(&self) -> (r: &u64) ensures *r == self.lo() { unimplemented!() }
    #[verifier::external_body] pub fn end(&self) -> (r: &u64) ensures *r == self.hi() { unimplemented!() }
}
pub mod filter_axioms {
    use vstd::prelude::*;
    use super::histogram::Bucket;
    pub proof fn lemma_filter_ext_ind(s: Seq<Bucket>, p: spec_fn(Bucket) -> bool, q: spec_fn(Bucket) -> bool)
        requires forall|b: Bucket| #[trigger] p(b) == q(b),
        ensures s.filter(p) == s.filter(q),
        decreases s.len()
    {
        reveal(Seq::filter);
        if s.len() > 0 { lemma_filter_ext_ind(s.drop_last(), p, q); }
    }
    pub broadcast proof fn lemma_filter_ext(s: Seq<Bucket>, p: spec_fn(Bucket) -> bool, q: spec_fn(Bucket) -> bool)
        requires forall|b: Bucket| #[trigger] p(b) == q(b),
        ensures #[trigger] s.filter(p) == #[trigger] s.filter(q),
    { lemma_filter_ext_ind(s, p, q); }
}
broadcast use {filter_axioms::lemma_filter_ext, mul_bounds::lemma_mul_u32_fits_u64, float_axioms::f64_mul_req, float_axioms::f64_mul_obeys};
pub open spec fn nonempty(s: Seq<histogram::Bucket>) -> Seq<histogram::Bucket> { s.filter(|b: histogram::Bucket| b.abs().count > 0) }
pub open spec fn mid(a: BucketAbs) -> u64 { (a.start + (a.end - a.start) / 2) as u64 }
// C20: a non-empty bucket is reported once, at the midpoint of its range, with its count
pub open spec fn out_bucket(a: BucketAbs) -> Bucket { Bucket { value: mid(a) as u32, count: a.count as u32 } }
'''

ITEMS = [
    dict(kind="struct", file=MH, name="Bucket"),
    dict(kind="struct", file=MH, name="Histogram"),
    dict(kind="fn", file=MH, impl=None, name="midpoint", ret="r",
         requires="range.lo() <= range.hi(),",
         ensures="r == range.lo() + (range.hi() - range.lo()) / 2,"),
    dict(kind="fn", file=MH, impl=r"^impl Histogram$", name="record", label="Histogram::record",
         ensures="histogram::added(&self.inner, value as u64, 1),      // OBL record_is_one_add_with_count_one"),
    dict(kind="fn", file=MH, impl=r"^impl Histogram$", name="drain", ret="r", label="Histogram::drain",
         rules={"h1_collect": 1}, extra_rewrites=[h1],
         closures={
             1: dict(params="bucket: &histogram::Bucket", ret="(keep: bool)", ensures="keep == (bucket.abs().count > 0),"),
             2: dict(params="bucket: histogram::Bucket", ret="(o: Bucket)", ensures="o == out_bucket(bucket.abs()),"),
         },
         ensures="""
            r@ =~= nonempty(self.inner.snapshot()).map_values(|b: histogram::Bucket| out_bucket(b.abs())),       // OBL drain_reports_every_nonempty_bucket_once
         """),
    # the closure of MetricAccumulatorEntry::write (accumulator.rs) that turns a drained bucket into the reported observation
    dict(kind="struct", file="metrique-writer-core/src/value/mod.rs", name="Observation"),
    dict(kind="fn", file="metrique-metricsrs/src/accumulator.rs", impl=r"^impl < V : MetricsRsVersion \+ \? Sized > Entry for MetricAccumulatorEntry < V >$", name="write",
         label="MetricAccumulatorEntry::write::bucket_observation", ret="r",
         closure_body=dict(after="buckets . iter ( ) . map ( | bucket |", sig="pub fn verif_bucket_observation(bucket: &Bucket) -> Observation", expr=True),
         rules={"rf_u32_as_f64": 2}, extra_rewrites=[rf_u32_as_f64], unpinned=["rf_u32_as_f64"],
         ensures="""
            // C20: a drained bucket is reported as `count` occurrences at its value (total = value x count, float product opaque);
            // no intermediate integer arithmetic that could wrap
            r == (Observation::Repeated { total: u32_as_f64(bucket.value).mul_spec(u32_as_f64(bucket.count)), occurrences: bucket.count as u64 }),   // OBL bucket_reported_with_its_count_and_value
         """),
]
POSTLUDE = ""
CANARY = dict(fn="Histogram::drain", replace=("r@ =~= nonempty(self.inner.snapshot())", "r@ =~= self.inner.snapshot()"))
