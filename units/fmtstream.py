"""Unit `fmtstream` (C16 / C15): the stream adapters of metrique-writer/src/format.rs - FormattedEntryIoStream::{next, flush},
MergeGlobals::format, MergeGlobalDimensions::format - hand every entry to the wrapped format exactly once, with only the
documented addition (globals first; global dimensions attached unless there are none)."""

NAME = "fmtstream"
PROPERTIES = ["C16", "C15"]
F = "metrique-writer/src/format.rs"
ST = "metrique-writer/src/stream.rs"

PRELUDE = r'''
pub struct ValidationError { pub v: u8 }
pub struct IoError { pub v: u8 }
pub enum IoStreamError { Validation(ValidationError), Io(IoError) }
pub mod io {
    use vstd::prelude::*;
    pub type Error = super::IoError;
    pub type Result<T> = core::result::Result<T, super::IoError>;
    pub trait Write {
        spec fn flushes(&self) -> nat;
        spec fn bytes(&self) -> int;      // opaque content
        fn flush(&mut self) -> (r: Result<()>) ensures final(self).flushes() == old(self).flushes() + 1, final(self).bytes() == old(self).bytes();
    }
}
pub trait Entry {
    spec fn id(&self) -> int;            // what the entry reports (C15: items and sample group), abstractly
}
pub uninterp spec fn merged_id(first: int, second: int) -> int;
pub uninterp spec fn with_global_dims_id(entry: int, dims: int, deny: int) -> int;
#[verifier::external_body]
#[verifier::reject_recursive_types(A)]
#[verifier::reject_recursive_types(B)]
pub struct MergedRef<'a, A: ?Sized, B: ?Sized> { _a: &'a A, _b: &'a B }
impl<'a, A: Entry, B: Entry> Entry for MergedRef<'a, A, B> { uninterp spec fn id(&self) -> int; }
impl<T: Entry> Entry for &T { open spec fn id(&self) -> int { (**self).id() } }
// Entry::merge_by_ref: the first entry's items, then the second's (verified in unit wrappers: MergedRef)
pub trait MergeByRef: Entry + Sized {
    fn merge_by_ref<'a, VerifI0: Entry>(&'a self, other: &'a VerifI0) -> (r: MergedRef<'a, Self, VerifI0>)
        ensures r.id() == merged_id(self.id(), other.id());
}
impl<T: Entry> MergeByRef for T {
    #[verifier::external_body]
    fn merge_by_ref<'a, VerifI0: Entry>(&'a self, other: &'a VerifI0) -> (r: MergedRef<'a, Self, VerifI0>) { unimplemented!() }
}
// a format: every call formats exactly the entry it is given (once); what it writes is its own business
pub trait Format {
    spec fn formatted(&self) -> Seq<int>;
    // how this format decorates an entry before the innermost format sees it (identity for a plain format)
    spec fn tr(&self, id: int) -> int;
    fn format<VerifI0: Entry, VerifI1: io::Write>(&mut self, entry: &VerifI0, output: &mut VerifI1) -> (r: Result<(), IoStreamError>)
        ensures final(self).formatted() == old(self).formatted().push(old(self).tr(entry.id())), final(output).flushes() == old(output).flushes(),
                forall|i: int| final(self).tr(i) == old(self).tr(i);
}
// a stream: every `next` hands exactly that entry on (once), every `flush` is one flush; errors change nothing about that
pub trait EntryIoStream {
    spec fn seen(&self) -> Seq<int>;
    spec fn nflush(&self) -> nat;
    spec fn str_tr(&self, id: int) -> int;
    fn next<VerifI0: Entry>(&mut self, entry: &VerifI0) -> (r: Result<(), IoStreamError>)
        ensures final(self).seen() == old(self).seen().push(old(self).str_tr(entry.id())), final(self).nflush() == old(self).nflush(),
                forall|i: int| final(self).str_tr(i) == old(self).str_tr(i);
    fn flush(&mut self) -> (r: io::Result<()>)
        ensures final(self).nflush() == old(self).nflush() + 1, final(self).seen() == old(self).seen(),
                forall|i: int| final(self).str_tr(i) == old(self).str_tr(i);
}
// what MergeGlobalDimensions does to an entry: nothing without global dimensions, else wrap it with exactly the configured ones
pub open spec fn gd<S, const N: usize>(m: MergeGlobalDimensions<S, N>, id: int) -> int {
    if m.global_dimensions.empty() { id } else { with_global_dims_id(id, m.global_dimensions.cid(), m.global_dimensions_denylist.cid()) }
}
// global dimensions (SmallVec / HashSet stand-ins with an opaque content id)
#[verifier::external_body] #[verifier::reject_recursive_types(A)] pub struct SmallVec<A> { _p: core::marker::PhantomData<A> }
#[verifier::external_body] #[verifier::reject_recursive_types(A)] pub struct HashSet<A> { _p: core::marker::PhantomData<A> }
#[verifier::external_body] pub struct CowStr { _p: u8 }
impl<A> SmallVec<A> {
    pub uninterp spec fn cid(&self) -> int;
    pub uninterp spec fn empty(&self) -> bool;
    #[verifier::external_body] pub fn is_empty(&self) -> (r: bool) ensures r == self.empty() { unimplemented!() }
}
impl<A> Clone for SmallVec<A> { #[verifier::external_body] fn clone(&self) -> (r: Self) ensures r.cid() == self.cid() { unimplemented!() } }
impl<A> HashSet<A> { pub uninterp spec fn cid(&self) -> int; }
impl<A> Clone for HashSet<A> { #[verifier::external_body] fn clone(&self) -> (r: Self) ensures r.cid() == self.cid() { unimplemented!() } }
#[verifier::external_body]
#[verifier::reject_recursive_types(E)]
pub struct WithGlobalDimensions<E, const N: usize> { _p: core::marker::PhantomData<E> }
impl<E: Entry, const N: usize> WithGlobalDimensions<E, N> {
    #[verifier::external_body]
    pub fn new(entry: E, dims: SmallVec<[(CowStr, CowStr); N]>, deny: HashSet<CowStr>) -> (r: Self)
        ensures r.id() == with_global_dims_id(entry.id(), dims.cid(), deny.cid())
    { unimplemented!() }
}
impl<E: Entry, const N: usize> Entry for WithGlobalDimensions<E, N> { uninterp spec fn id(&self) -> int; }
'''

ITEMS = [
    dict(kind="struct", file=F, name="FormattedEntryIoStream", attrs=["#[verifier::reject_recursive_types(F)]", "#[verifier::reject_recursive_types(O)]"]),
    dict(kind="fn", file=F, impl=r"^impl < F : Format , O : io :: Write > EntryIoStream for FormattedEntryIoStream < F , O >$", name="next", label="FormattedEntryIoStream::next",
         impl_trait_args=True, rules={"R14": 1},
         impl_extra="    // C16: what the stream has handed on is what its format was given; its flushes are the output's\n"
                    "    open spec fn seen(&self) -> Seq<int> { self.format.formatted() }\n"
                    "    open spec fn nflush(&self) -> nat { self.output.flushes() }\n"
                    "    open spec fn str_tr(&self, id: int) -> int { self.format.tr(id) }\n",
         ensures="""
            // C16: the entry is handed to the format exactly once, whatever the format answers; the output is not flushed behind its back
            final(self).format.formatted() == old(self).format.formatted().push(old(self).format.tr(entry.id())),           // OBL entry_formatted_exactly_once
            final(self).output.flushes() == old(self).output.flushes(),
         """),
    dict(kind="fn", file=F, impl=r"^impl < F : Format , O : io :: Write > EntryIoStream for FormattedEntryIoStream < F , O >$", name="flush", label="FormattedEntryIoStream::flush",
         ensures="""
            final(self).output.flushes() == old(self).output.flushes() + 1,                              // OBL flush_reaches_the_output
            final(self).format.formatted() == old(self).format.formatted(),
         """),
    dict(kind="struct", file="metrique-writer/src/stream.rs", name="MergeGlobals", attrs=["#[verifier::reject_recursive_types(S)]", "#[verifier::reject_recursive_types(G)]"]),
    dict(kind="fn", file=F, impl=r"^impl < F : Format , G : Entry > Format for MergeGlobals < F , G >$", name="format", label="MergeGlobals::format",
         impl_trait_args=True, rules={"R14": 2},
         impl_extra="    open spec fn formatted(&self) -> Seq<int> { self.stream.formatted() }\n"
                    "    open spec fn tr(&self, id: int) -> int { self.stream.tr(merged_id(self.globals.id(), id)) }\n",
         ensures="""
            // C15: the wrapped format sees the globals merged in front of the entry (globals first), once
            final(self).stream.formatted() == old(self).stream.formatted().push(old(self).stream.tr(merged_id(old(self).globals.id(), entry.id()))),   // OBL globals_first_then_entry
            final(self).globals == old(self).globals,
         """),
    dict(kind="struct", file="metrique-writer/src/stream.rs", name="MergeGlobalDimensions", attrs=["#[verifier::reject_recursive_types(S)]", "#[verifier::reject_recursive_types(N)]"]),
    dict(kind="fn", file=F, impl=r"^impl < F : Format , const N : usize > Format for MergeGlobalDimensions < F , N >$", name="format", label="MergeGlobalDimensions::format",
         impl_trait_args=True, rules={"R14": 2},
         impl_extra="    open spec fn formatted(&self) -> Seq<int> { self.stream.formatted() }\n"
                    "    open spec fn tr(&self, id: int) -> int { self.stream.tr(gd(*self, id)) }\n",
         ensures="""
            // C15: without global dimensions the entry passes through untouched; otherwise it is wrapped with exactly the configured
            // dimensions and deny list
            final(self).stream.formatted() == old(self).stream.formatted().push(old(self).stream.tr(gd(*old(self), entry.id()))),   // OBL global_dimensions_attached_as_configured
            final(self).global_dimensions == old(self).global_dimensions, final(self).global_dimensions_denylist == old(self).global_dimensions_denylist,
         """),
    # ---- the same two adapters at stream level (metrique-writer/src/stream.rs)
    dict(kind="fn", file=ST, impl=r"^impl < S : EntryIoStream , G : Entry > EntryIoStream for MergeGlobals < S , G >$", name="next", label="<MergeGlobals as EntryIoStream>::next",
         impl_trait_args=True, rules={"R14": 1},
         impl_extra="    // C15: the wrapped stream sees every entry with the globals merged in front\n"
                    "    open spec fn seen(&self) -> Seq<int> { self.stream.seen() }\n"
                    "    open spec fn nflush(&self) -> nat { self.stream.nflush() }\n"
                    "    open spec fn str_tr(&self, id: int) -> int { self.stream.str_tr(merged_id(self.globals.id(), id)) }\n",
         ensures="""final(self).stream.seen() == old(self).stream.seen().push(old(self).stream.str_tr(merged_id(old(self).globals.id(), entry.id()))),   // OBL stream_globals_first_then_entry
            final(self).globals == old(self).globals,"""),
    dict(kind="fn", file=ST, impl=r"^impl < S : EntryIoStream , G : Entry > EntryIoStream for MergeGlobals < S , G >$", name="flush", label="<MergeGlobals as EntryIoStream>::flush", ensures="final(self).globals == old(self).globals,"),
    dict(kind="fn", file=ST, impl=r"^impl < S : EntryIoStream , const N : usize > EntryIoStream for MergeGlobalDimensions < S , N >$", name="next", label="<MergeGlobalDimensions as EntryIoStream>::next",
         impl_trait_args=True, rules={"R14": 1},
         impl_extra="    open spec fn seen(&self) -> Seq<int> { self.stream.seen() }\n"
                    "    open spec fn nflush(&self) -> nat { self.stream.nflush() }\n"
                    "    open spec fn str_tr(&self, id: int) -> int { self.stream.str_tr(gd(*self, id)) }\n",
         ensures="""
            final(self).stream.seen() == old(self).stream.seen().push(old(self).stream.str_tr(gd(*old(self), entry.id()))),   // OBL stream_global_dimensions_attached_as_configured
            final(self).global_dimensions == old(self).global_dimensions, final(self).global_dimensions_denylist == old(self).global_dimensions_denylist,
         """),
    dict(kind="fn", file=ST, impl=r"^impl < S : EntryIoStream , const N : usize > EntryIoStream for MergeGlobalDimensions < S , N >$", name="flush", label="<MergeGlobalDimensions as EntryIoStream>::flush",
         ensures="final(self).global_dimensions == old(self).global_dimensions, final(self).global_dimensions_denylist == old(self).global_dimensions_denylist,"),
]
POSTLUDE = ""
CANARY = dict(fn="FormattedEntryIoStream::flush", replace=("final(self).output.flushes() == old(self).output.flushes() + 1,", "final(self).output.flushes() == old(self).output.flushes(),"))
