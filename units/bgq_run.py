"""Unit `bgq_run` (C05, C04, C01): the writer thread's main loop, `Receiver::run`, extracted from
metrique-writer/src/sink/background.rs, verified against the contracts of the functions it calls
(drain_until_deadline, flush_stream, shut_down: proved in unit `bgq`; WakerTracker: proved in unit `waker`).

One call cannot be taken verbatim: `waker_tracker.handle_waiting_wakers(|| inner.queue.capacity(),
|| self.flush_stream(), status, entry_count)` passes a closure that captures `&mut self`, which this Verus
rejects.  Rewrite R15 replaces that statement by `verif_handle_waiting_wakers(&mut waker_tracker, &inner,
&mut self, status, entry_count)`, a stand-in carrying handle_waiting_wakers' contract instantiated with
those two closures (FnOnce: the flush runs at most once).  Everything else is the real text."""
from vf.extract import _toks, Undecided
from units import bgq, waker

NAME = "bgq_run"
CRATE_ATTRS = "#![feature(allocator_api)]\n"
PROPERTIES = ["C05", "C04", "C01"]
BG = bgq.BG


def r15_waker_call(text):
    """waker_tracker.handle_waiting_wakers(|| CAPACITY_EXPR, || __s.flush_stream(), A, B[,]);
       -> verif_handle_waiting_wakers(&mut waker_tracker, &mut __s, A, B);   (A, B taken verbatim; the capacity callback may be any
       closure without parameters - its value is arbitrary in the stand-in's contract)"""
    head = "waker_tracker . handle_waiting_wakers ( ||".split()
    tail = ", || __s . flush_stream ( ) ,".split()
    hits = 0
    while True:
        toks, match = _toks(text)
        for i in range(len(toks) - len(head) + 1):
            if [x.text for x in toks[i:i + len(head)]] == head:
                open_i = i + 3
                close_i = match[open_i]
                # skip the first closure's expression up to the `, || __s.flush_stream(),` that must follow at depth 0
                j = i + len(head)
                depth = 0
                while j < close_i and not (depth == 0 and [x.text for x in toks[j:j + len(tail)]] == tail):
                    if toks[j].text in ("(", "[", "{"):
                        depth += 1
                    elif toks[j].text in (")", "]", "}"):
                        depth -= 1
                    j += 1
                if j >= close_i:
                    continue
                if toks[close_i + 1].text != ";":
                    raise Undecided("R15: call is not a statement")
                rest = text[toks[j + len(tail) - 1].end:toks[close_i].start].strip().rstrip(",").strip()
                text = text[:toks[i].start] + "verif_handle_waiting_wakers(&mut waker_tracker, &mut __s, %s);" % rest + text[toks[close_i + 1].end:]
                hits += 1
                break
        else:
            return text, hits


def r1s_span(text):
    """let span = tracing::span!(..); let _enter = span.enter();  -> removed (tracing only)"""
    hits = 0
    toks, match = _toks(text)
    for i, t in enumerate(toks):
        if t.text == "let" and toks[i + 1].text == "span" and toks[i + 2].text == "=" and toks[i + 3].text == "tracing" \
                and toks[i + 5].text == "span" and toks[i + 6].text == "!":
            c = match[i + 7]
            assert toks[c + 1].text == ";"
            j = c + 2
            pat = "let _enter = span . enter ( ) ;".split()
            if [x.text for x in toks[j:j + len(pat)]] != pat:
                raise Undecided("R1s: span.enter() does not follow the span")
            text = text[:t.start] + text[toks[j + len(pat) - 1].end:]
            hits = 1
            break
    return text, hits


def r16_duration_zero(text):
    n = text.count("Duration::ZERO")
    return text.replace("Duration::ZERO", "verif_duration_zero()"), n


def _rewrite_self(text):
    # r15 is written against the R7-renamed receiver (`__s`), but extra rewrites run before R7: match `self`
    t2, h = r15_waker_call(text.replace("|| self.flush_stream()", "|| __s.flush_stream()"))
    t2 = t2.replace("&mut __s, status", "&mut self, status")
    return t2, h
_rewrite_self.__name__ = "r15_waker_call"

_W = waker.PRELUDE
_W = _W[_W.index("#[verifier::external_type_specification]"):]      # mpsc receiver spec + abstract step (tokio stand-in is in bgq's prelude)

PRELUDE = bgq.PRELUDE + _W + r'''
impl Parker {
    // park_deadline returns no later than its deadline (crossbeam; assumed): only latency depends on it
    #[verifier::external_body]
    pub fn park_deadline(&self, deadline: Instant) { unimplemented!() }
}
impl AtomicBool {
    #[verifier::external_body]
    pub fn load(&self, o: Ordering) -> bool { unimplemented!() }
}
impl Instant {
    #[verifier::external_body]
    pub fn elapsed(&self) -> Duration { unimplemented!() }
}
impl Duration {
    #[verifier::external_body]
    pub fn as_micros(&self) -> u128 { unimplemented!() }
}
#[verifier::external_body]
pub fn verif_duration_zero() -> Duration { unimplemented!() }
impl vstd::std_specs::ops::AddAssignSpecImpl<Duration> for Duration {
    open spec fn obeys_add_assign_spec() -> bool { false }
    open spec fn add_assign_req(&self, rhs: Duration) -> bool { true }
    open spec fn add_assign_spec(&self, rhs: Duration) -> &Duration { self }
}
impl core::ops::AddAssign<Duration> for Duration {
    #[verifier::external_body] fn add_assign(&mut self, rhs: Duration) { unimplemented!() }
}
// "no appenders left": any answer is possible
pub assume_specification<T: ?Sized, A: core::alloc::Allocator>[ Arc::<T, A>::get_mut ](a: &mut Arc<T, A>) -> (r: Option<&mut T>);
// any answer (reference counts are not modelled)
pub assume_specification<T: ?Sized, A: core::alloc::Allocator>[ Arc::<T, A>::strong_count ](a: &Arc<T, A>) -> (r: usize);

pub assume_specification<T, E>[ core::result::Result::<T, E>::unwrap_or ](r: core::result::Result<T, E>, d: T) -> (o: T)
    ensures o == (match r { Ok(v) => v, Err(_) => d });
// witnesses (only the named functions can establish them)
pub uninterp spec fn did_shut_down() -> bool;
pub uninterp spec fn drain_result(status: DrainResult, n: usize) -> bool;
'''

_RECV = r"^impl < S : EntryIoStream , E : Entry > Receiver < S , E >$"

ITEMS = [
    dict(kind="struct", file=BG, name="DrainResult", keep_derive=True, structural=True),
    dict(kind="struct", file=BG, name="FlushSignal"),
    dict(kind="struct", file=BG, name="WakerTracker"),
    dict(kind="raw", label="wt_abs", text="""
pub open spec fn wt_abs(t: WakerTracker) -> WtAbs {
    WtAbs { w: t.waiting_wakers@.len() as nat, c: t.entries_before_wake as nat }
}
"""),
    dict(kind="struct", file=BG, name="Inner", attrs=["#[verifier::reject_recursive_types(E)]"]),
    dict(kind="struct", file=BG, name="Receiver", attrs=["#[verifier::reject_recursive_types(S)]", "#[verifier::reject_recursive_types(E)]"]),
    dict(kind="raw", label="callee contracts (proved in units bgq and waker, assumed here)", text="""
impl WakerTracker {
    #[verifier::external_body]
    fn new(flush_queue_receiver: std::sync::mpsc::Receiver<FlushSignal>) -> (r: Self)
        ensures r.waiting_wakers@.len() == 0, r.entries_before_wake == 0,
    { unimplemented!() }
    #[verifier::external_body]
    fn will_progress_on_drained_queue(&mut self) -> (r: bool)
        ensures r == (old(self).waiting_wakers@.len() > 0), *final(self) == *old(self),
    { unimplemented!() }
}
impl<S: EntryIoStream, E: Entry> Receiver<S, E> {
    #[verifier::external_body]
    fn drain_until_deadline(&mut self, deadline: Instant) -> (r: (DrainResult, usize))
        ensures
            exists|popped: Seq<int>| #[trigger] nexts(final(self).stream.ops()) == nexts(old(self).stream.ops()) + popped && popped.len() == r.1,
            flushes(final(self).stream.ops()) == flushes(old(self).stream.ops()),
            old(self).stream.ops().is_prefix_of(final(self).stream.ops()),
            final(self).inner == old(self).inner,
            drain_result(r.0, r.1),
    { unimplemented!() }
    #[verifier::external_body]
    fn flush_stream(&mut self)
        ensures
            final(self).stream.ops() == old(self).stream.ops().push(Op::Flush),
            flushes(final(self).stream.ops()) == flushes(old(self).stream.ops()) + 1,
            nexts(final(self).stream.ops()) == nexts(old(self).stream.ops()),
            final(self).inner == old(self).inner,
    { unimplemented!() }
    // shut_down: final drain, one flush, then the stream is closed (unit bgq, C05 obligations)
    #[verifier::external_body]
    fn shut_down(self)
        ensures did_shut_down(),
    { unimplemented!() }
}
// R15: handle_waiting_wakers(|| inner.queue.capacity(), || recv.flush_stream(), status, n) with its contract from unit `waker`
#[verifier::external_body]
fn verif_handle_waiting_wakers<S: EntryIoStream, E: Entry>(wt: &mut WakerTracker, recv: &mut Receiver<S, E>, status: DrainResult, n: usize)
    requires
        // C04 wiring (P1/P2 of the WakerTracker comment): the tracker is told what a drain really returned
        drain_result(status, n),                                                     // OBL wakers_see_a_real_drain_result
    ensures
        // the flush closure is FnOnce: at most one flush, and nothing else reaches the stream
        final(recv).stream.ops() == old(recv).stream.ops() || final(recv).stream.ops() == old(recv).stream.ops().push(Op::Flush),
        wt_release(wt_abs(*old(wt)), status == DrainResult::Drained, n as nat) ==> final(recv).stream.ops() == old(recv).stream.ops().push(Op::Flush),
        final(recv).inner == old(recv).inner,
        wt_abs(*final(wt)) == wt_step(wt_abs(*old(wt)), status == DrainResult::Drained, n as nat,
                                      final(wt).waiting_wakers@.len() as nat, final(wt).entries_before_wake as nat),
{ unimplemented!() }
"""),
    dict(kind="fn", file=BG, impl=_RECV, name="run",
         attrs=["#[verifier::exec_allows_no_decreases_clause]"],
         rules={"R1": 2, "R7": 1, "r13_now_plus": 1, "r10_now_ge": 1, "r1s_span": 1, "r16_duration_zero": 1, "r15_waker_call": 1},
         extra_rewrites=[bgq.r13_now_plus, bgq.r10_now_ge, r1s_span, r16_duration_zero, r15_waker_call],
         n_loops=2,
         ensures="""
            // C05: the writer thread only ever exits through shut_down (final drain, flush, close) - on the shutdown
            // signal and on "no appenders left" alike
            did_shut_down(),                                                          // OBL run_exits_only_through_shut_down
         """,
         loops={1: "invariant true,", 2: "invariant true,"},
         proofs=[
             # C04 (S2 / no lost progress): the writer never parks while it holds flush signals it could complete
             ("before", "__s . parker . park_deadline ( next_flush ) ;",
              "proof { assert(waker_tracker.waiting_wakers@.len() == 0); /* OBL never_parks_while_holding_flush_signals */ }"),
         ]),
]
POSTLUDE = "\n"
CANARY = None
