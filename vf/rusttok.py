"""A small Rust tokenizer and item locator used by the extractor.

It understands exactly what is needed to copy items out of /repo verbatim:
line/block comments (nested), string / byte-string / raw-string literals, char
literals vs. lifetimes, and bracket matching.  It never re-prints code from a
tree: extraction is always by character offsets into the original file text,
so whatever lies between two offsets is the repository's own text.
"""
import re


class Tok:
    __slots__ = ("kind", "text", "start", "end")

    def __init__(self, kind, text, start, end):
        self.kind, self.text, self.start, self.end = kind, text, start, end

    def __repr__(self):
        return "Tok(%s,%r,%d)" % (self.kind, self.text, self.start)


class TokError(Exception):
    pass


_ident_re = re.compile(r"[A-Za-z_][A-Za-z0-9_]*")
_num_re = re.compile(r"[0-9][0-9A-Za-z_]*(\.[0-9][0-9A-Za-z_]*)?([eE][+-]?[0-9_]+)?[A-Za-z0-9_]*")
_raw_re = re.compile(r"b?r(#*)\"")
_PUNCT3 = ("<<=", ">>=", "...", "..=")
_PUNCT2 = ("::", "->", "=>", "==", "!=", "<=", ">=", "&&", "||", "+=", "-=", "*=", "/=",
           "%=", "^=", "&=", "|=", "<<", ">>", "..")


def tokenize(text, keep_comments=False):
    toks = []
    i, n = 0, len(text)
    while i < n:
        c = text[i]
        if c.isspace():
            i += 1
            continue
        if text.startswith("//", i):
            j = text.find("\n", i)
            j = n if j < 0 else j
            if keep_comments:
                toks.append(Tok("comment", text[i:j], i, j))
            i = j
            continue
        if text.startswith("/*", i):
            depth, j = 1, i + 2
            while j < n and depth:
                if text.startswith("/*", j):
                    depth += 1
                    j += 2
                elif text.startswith("*/", j):
                    depth -= 1
                    j += 2
                else:
                    j += 1
            if depth:
                raise TokError("unterminated block comment at %d" % i)
            if keep_comments:
                toks.append(Tok("comment", text[i:j], i, j))
            i = j
            continue
        m = _raw_re.match(text, i)
        if m:
            closer = '"' + m.group(1)
            j = text.find(closer, m.end())
            if j < 0:
                raise TokError("unterminated raw string at %d" % i)
            j += len(closer)
            toks.append(Tok("str", text[i:j], i, j))
            i = j
            continue
        if c == '"' or (c == 'b' and text.startswith('b"', i)):
            j = i + (2 if c == 'b' else 1)
            while j < n and text[j] != '"':
                j += 2 if text[j] == "\\" else 1
            if j >= n:
                raise TokError("unterminated string at %d" % i)
            j += 1
            toks.append(Tok("str", text[i:j], i, j))
            i = j
            continue
        if c == "'" or (c == 'b' and text.startswith("b'", i)):
            k = i + (2 if c == 'b' else 1)
            # char literal: 'x' or '\..'; lifetime: 'ident not followed by '
            if k < n and text[k] == "\\":
                j = k + 2
                while j < n and text[j] != "'":
                    j += 1
                j += 1
                toks.append(Tok("char", text[i:j], i, j))
                i = j
                continue
            if k + 1 < n and text[k + 1] == "'":
                j = k + 2
                toks.append(Tok("char", text[i:j], i, j))
                i = j
                continue
            m = _ident_re.match(text, k)
            if m and c == "'":
                toks.append(Tok("lifetime", text[i:m.end()], i, m.end()))
                i = m.end()
                continue
            # non-ascii char literal such as 'é'
            j = text.find("'", k)
            if j < 0 or j - k > 8:
                raise TokError("bad quote at %d" % i)
            j += 1
            toks.append(Tok("char", text[i:j], i, j))
            i = j
            continue
        m = _ident_re.match(text, i)
        if m:
            # raw identifiers r#foo
            toks.append(Tok("ident", m.group(0), i, m.end()))
            i = m.end()
            continue
        if c.isdigit():
            m = _num_re.match(text, i)
            j = m.end()
            # do not swallow a range operator or method call: 1..2 / 1.max(2)
            t = text[i:j]
            if "." in t:
                k = t.index(".")
                if text.startswith("..", i + k) or (i + k + 1 < n and (text[i + k + 1].isalpha() or text[i + k + 1] == "_")):
                    j = i + k
            toks.append(Tok("num", text[i:j], i, j))
            i = j
            continue
        for p in _PUNCT3:
            if text.startswith(p, i):
                toks.append(Tok("punct", p, i, i + 3))
                i += 3
                break
        else:
            for p in _PUNCT2:
                if text.startswith(p, i):
                    toks.append(Tok("punct", p, i, i + 2))
                    i += 2
                    break
            else:
                toks.append(Tok("punct", c, i, i + 1))
                i += 1
    return toks


OPEN = {"(": ")", "[": "]", "{": "}"}
CLOSE = {")": "(", "]": "[", "}": "{"}


def match_brackets(toks):
    """Return dict index->matching index for (), [], {} tokens."""
    stack, match = [], {}
    for idx, t in enumerate(toks):
        if t.kind != "punct":
            continue
        if t.text in OPEN:
            stack.append(idx)
        elif t.text in CLOSE:
            if not stack or toks[stack[-1]].text != CLOSE[t.text]:
                raise TokError("unbalanced %r at %d" % (t.text, t.start))
            o = stack.pop()
            match[o] = idx
            match[idx] = o
    if stack:
        raise TokError("unclosed %r at %d" % (toks[stack[-1]].text, toks[stack[-1]].start))
    return match


def norm(text):
    """Whitespace/comment-insensitive normal form of a piece of Rust text."""
    return " ".join(t.text for t in tokenize(text))


class Source:
    def __init__(self, path, text=None):
        self.path = path
        self.text = open(path).read() if text is None else text
        self.toks = tokenize(self.text)
        self.match = match_brackets(self.toks)
        self._line_starts = [0]
        for m in re.finditer("\n", self.text):
            self._line_starts.append(m.end())

    def line_of(self, off):
        import bisect
        return bisect.bisect_right(self._line_starts, off)

    # ---- item location -------------------------------------------------
    def _depth_items(self, lo, hi):
        """Yield token indices in [lo,hi) that are at brace depth 0 relative to lo."""
        i = lo
        while i < hi:
            t = self.toks[i]
            yield i
            if t.kind == "punct" and t.text in OPEN:
                i = self.match[i] + 1
            else:
                i += 1

    def find_blocks(self, keyword, header_pat, lo=0, hi=None):
        """Find `keyword ... { }` items (impl / mod / trait) at depth 0 in [lo,hi) whose header
        (normalized text between keyword and `{`) matches regex header_pat. Returns
        list of (kw_idx, open_idx, close_idx)."""
        hi = len(self.toks) if hi is None else hi
        out = []
        for i in self._depth_items(lo, hi):
            t = self.toks[i]
            if t.kind == "ident" and t.text == keyword:
                # header up to first `{` at depth 0 (skipping () [] <>-free scan)
                j = i + 1
                while j < hi and not (self.toks[j].kind == "punct" and self.toks[j].text in ("{", ";")):
                    if self.toks[j].kind == "punct" and self.toks[j].text in ("(", "["):
                        j = self.match[j] + 1
                    else:
                        j += 1
                if j >= hi or self.toks[j].text == ";":
                    continue
                header = " ".join(x.text for x in self.toks[i:j])
                if re.search(header_pat, header):
                    out.append((i, j, self.match[j]))
        return out

    def find_fn(self, name, lo=0, hi=None):
        """Find `fn name` at depth 0 in [lo,hi). Returns (start_idx, fn_idx, open_idx, close_idx)
        where start_idx includes leading attributes / visibility / qualifiers."""
        hi = len(self.toks) if hi is None else hi
        res = []
        for i in self._depth_items(lo, hi):
            t = self.toks[i]
            if t.kind == "ident" and t.text == "fn" and i + 1 < hi and self.toks[i + 1].text == name:
                j = i + 2
                while j < hi and not (self.toks[j].kind == "punct" and self.toks[j].text in ("{", ";")):
                    if self.toks[j].kind == "punct" and self.toks[j].text in ("(", "["):
                        j = self.match[j] + 1
                    else:
                        j += 1
                if j >= hi or self.toks[j].text == ";":
                    continue
                # walk back over qualifiers
                s = i
                while s - 1 >= lo and self.toks[s - 1].kind == "ident" and self.toks[s - 1].text in (
                        "pub", "const", "async", "unsafe", "extern", "default"):
                    s -= 1
                # pub(crate)
                if s - 1 >= lo and self.toks[s - 1].text == ")" and self.match[s - 1] - 1 >= lo and \
                        self.toks[self.match[s - 1] - 1].text == "pub":
                    s = self.match[s - 1] - 1
                res.append((s, i, j, self.match[j]))
        return res

    def attrs_before(self, idx, lo=0):
        """Token index of the first attribute `#[...]` directly preceding token idx."""
        s = idx
        while s - 1 >= lo and self.toks[s - 1].text == "]":
            o = self.match[s - 1]
            if o - 1 >= lo and self.toks[o - 1].text == "#":
                s = o - 1
            elif o - 2 >= lo and self.toks[o - 1].text == "!" and self.toks[o - 2].text == "#":
                break
            else:
                break
        return s

    def find_struct(self, name, lo=0, hi=None, kw=("struct", "enum")):
        hi = len(self.toks) if hi is None else hi
        for i in self._depth_items(lo, hi):
            t = self.toks[i]
            if t.kind == "ident" and t.text in kw and i + 1 < hi and self.toks[i + 1].text == name:
                j = i + 2
                while j < hi and not (self.toks[j].kind == "punct" and self.toks[j].text in ("{", ";", "(")):
                    j += 1
                if self.toks[j].text == ";":
                    end = j
                elif self.toks[j].text == "(":
                    end = self.match[j]
                    while self.toks[end].text != ";":
                        end += 1
                else:
                    end = self.match[j]
                s = i
                while s - 1 >= lo and (self.toks[s - 1].text == "pub"):
                    s -= 1
                if s - 1 >= lo and self.toks[s - 1].text == ")" and self.toks[self.match[s - 1] - 1].text == "pub":
                    s = self.match[s - 1] - 1
                return (s, i, j, end)
        return None

    def span(self, a, b):
        """Text from start of token a to end of token b (inclusive)."""
        return self.text[self.toks[a].start:self.toks[b].end]
