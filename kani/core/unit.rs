// Appended to metrique-writer-core/src/unit.rs under #[cfg(kani)] in a scratch copy (C19).
#[cfg(kani)]
mod verif_kani {
    use super::*;
    use crate::value::{MetricFlags, Observation, Value, ValueWriter, MetricValue};

    // INDEPENDENT scale table, keyed on the EMITTED Unit value (what CloudWatch will read):
    // bits per unit for the bit/byte(/second) families, units per second for the time family.
    fn pow1000(s: PositiveScale) -> u64 {
        match s {
            PositiveScale::One => 1,
            PositiveScale::Kilo => 1_000,
            PositiveScale::Mega => 1_000_000,
            PositiveScale::Giga => 1_000_000_000,
            PositiveScale::Tera => 1_000_000_000_000,
        }
    }
    fn bits_per_unit(u: Unit) -> u64 {
        match u {
            Unit::Byte(s) | Unit::BytePerSecond(s) => 8 * pow1000(s),
            Unit::Bit(s) | Unit::BitPerSecond(s) => pow1000(s),
            _ => 0,
        }
    }
    fn units_per_second(u: Unit) -> u64 {
        match u {
            Unit::Second(NegativeScale::One) => 1,
            Unit::Second(NegativeScale::Milli) => 1_000,
            Unit::Second(NegativeScale::Micro) => 1_000_000,
            _ => 0,
        }
    }
    fn within_1ulp_of_one(x: f64) -> bool {
        x >= 1.0 - f64::EPSILON && x <= 1.0 + f64::EPSILON
    }

    // value_in_To = value_in_From * bits(From) / bits(To):  RATIO must be exactly that correctly rounded quotient,
    // and composing with the inverse must be the identity up to one ulp.
    fn check_bit_pair<A: Convert<B> + UnitTag, B: Convert<A> + UnitTag>() {
        let (a, b) = (bits_per_unit(A::UNIT), bits_per_unit(B::UNIT));
        assert!(a != 0 && b != 0);
        assert!(<A as Convert<B>>::RATIO == (a as f64) / (b as f64));
        assert!(within_1ulp_of_one(<A as Convert<B>>::RATIO * <B as Convert<A>>::RATIO));
        // same unit <=> ratio 1 <=> convert is the identity
        assert!((a == b) == (<A as Convert<B>>::RATIO == 1.0));
    }
    fn check_time_pair<A: Convert<B> + UnitTag, B: Convert<A> + UnitTag>() {
        let (a, b) = (units_per_second(A::UNIT), units_per_second(B::UNIT));
        assert!(a != 0 && b != 0);
        assert!(<A as Convert<B>>::RATIO == (b as f64) / (a as f64));
        assert!(within_1ulp_of_one(<A as Convert<B>>::RATIO * <B as Convert<A>>::RATIO));
        assert!((a == b) == (<A as Convert<B>>::RATIO == 1.0));
    }

    macro_rules! bit_from {
        ($($name:ident = $from:ident),*) => { $(
            #[kani::proof]
            fn $name() {
                check_bit_pair::<$from, Byte>(); check_bit_pair::<$from, Kilobyte>(); check_bit_pair::<$from, Megabyte>();
                check_bit_pair::<$from, Gigabyte>(); check_bit_pair::<$from, Terabyte>();
                check_bit_pair::<$from, Bit>(); check_bit_pair::<$from, Kilobit>(); check_bit_pair::<$from, Megabit>();
                check_bit_pair::<$from, Gigabit>(); check_bit_pair::<$from, Terabit>();
                check_bit_pair::<$from, BytePerSecond>(); check_bit_pair::<$from, KilobytePerSecond>(); check_bit_pair::<$from, MegabytePerSecond>();
                check_bit_pair::<$from, GigabytePerSecond>(); check_bit_pair::<$from, TerabytePerSecond>();
                check_bit_pair::<$from, BitPerSecond>(); check_bit_pair::<$from, KilobitPerSecond>(); check_bit_pair::<$from, MegabitPerSecond>();
                check_bit_pair::<$from, GigabitPerSecond>(); check_bit_pair::<$from, TerabitPerSecond>();
            }
        )* }
    }
    bit_from!(ratio_from_byte = Byte, ratio_from_kilobyte = Kilobyte, ratio_from_megabyte = Megabyte, ratio_from_gigabyte = Gigabyte,
              ratio_from_terabyte = Terabyte, ratio_from_bit = Bit, ratio_from_kilobit = Kilobit, ratio_from_megabit = Megabit,
              ratio_from_gigabit = Gigabit, ratio_from_terabit = Terabit,
              ratio_from_byte_ps = BytePerSecond, ratio_from_kilobyte_ps = KilobytePerSecond, ratio_from_megabyte_ps = MegabytePerSecond,
              ratio_from_gigabyte_ps = GigabytePerSecond, ratio_from_terabyte_ps = TerabytePerSecond,
              ratio_from_bit_ps = BitPerSecond, ratio_from_kilobit_ps = KilobitPerSecond, ratio_from_megabit_ps = MegabitPerSecond,
              ratio_from_gigabit_ps = GigabitPerSecond, ratio_from_terabit_ps = TerabitPerSecond);

    #[kani::proof]
    fn ratio_time_all_pairs() {
        check_time_pair::<Second, Second>(); check_time_pair::<Second, Millisecond>(); check_time_pair::<Second, Microsecond>();
        check_time_pair::<Millisecond, Second>(); check_time_pair::<Millisecond, Millisecond>(); check_time_pair::<Millisecond, Microsecond>();
        check_time_pair::<Microsecond, Second>(); check_time_pair::<Microsecond, Millisecond>(); check_time_pair::<Microsecond, Microsecond>();
    }

    // the unitless tag converts to anything with ratio exactly 1
    #[kani::proof]
    fn ratio_none_to_any() {
        assert!(<None as Convert<Second>>::RATIO == 1.0 && <None as Convert<Millisecond>>::RATIO == 1.0);
        assert!(<None as Convert<Megabyte>>::RATIO == 1.0 && <None as Convert<BitPerSecond>>::RATIO == 1.0);
        assert!(<None as Convert<Count>>::RATIO == 1.0 && <None as Convert<Percent>>::RATIO == 1.0 && <None as Convert<None>>::RATIO == 1.0);
    }

    // the declared tag emits the declared unit name (spot-check of every family through the real name())
    #[kani::proof]
    fn tag_units_are_the_declared_ones() {
        assert!(Millisecond::UNIT == Unit::Second(NegativeScale::Milli));
        assert!(Microsecond::UNIT == Unit::Second(NegativeScale::Micro));
        assert!(Second::UNIT == Unit::Second(NegativeScale::One));
        assert!(Kilobyte::UNIT == Unit::Byte(PositiveScale::Kilo) && Terabit::UNIT == Unit::Bit(PositiveScale::Tera));
        assert!(MegabytePerSecond::UNIT == Unit::BytePerSecond(PositiveScale::Mega) && GigabitPerSecond::UNIT == Unit::BitPerSecond(PositiveScale::Giga));
        assert!(None::UNIT == Unit::None && Count::UNIT == Unit::Count && Percent::UNIT == Unit::Percent);
    }

    // Convert::convert, for ALL observations: the payload is multiplied by RATIO exactly once, the variant
    // and the occurrence count are preserved, and nothing changes at all when RATIO == 1.
    fn any_obs() -> Observation {
        match kani::any::<u8>() % 3 {
            0 => Observation::Unsigned(kani::any()),
            1 => Observation::Floating(kani::any()),
            _ => Observation::Repeated { total: kani::any(), occurrences: kani::any() },
        }
    }
    fn same_bits(a: f64, b: f64) -> bool { a.to_bits() == b.to_bits() }
    // STRUCTURE for all observations (no float product on the harness side: relating two symbolic multipliers is an
    // equivalence check CBMC does not finish): variant mapping, occurrences, and bit-identity when RATIO == 1.
    fn check_convert_structure<A: Convert<B>, B: UnitTag>() {
        let o = any_obs();
        let r = <A as Convert<B>>::convert(o);
        let ratio = <A as Convert<B>>::RATIO;
        match (o, r) {
            // an unsigned observation stays an integer only when nothing is scaled; otherwise it becomes a float
            (Observation::Unsigned(u), Observation::Unsigned(v)) => assert!(ratio == 1.0 && u == v),
            (Observation::Unsigned(_), Observation::Floating(_)) => assert!(ratio != 1.0),
            (Observation::Floating(x), Observation::Floating(f)) => assert!(ratio != 1.0 || same_bits(f, x)),
            (Observation::Repeated { total, occurrences }, Observation::Repeated { total: t2, occurrences: o2 }) => {
                assert!(o2 == occurrences);
                assert!(ratio != 1.0 || same_bits(t2, total));
            }
            _ => assert!(false),
        }
    }
    // VALUES on concrete probes (evaluated by constant propagation): the payload is multiplied by RATIO exactly once,
    // including magnitudes beyond 2^53 and u64::MAX
    fn check_convert_values<A: Convert<B>, B: UnitTag>() {
        let ratio = <A as Convert<B>>::RATIO;
        let us: [u64; 6] = [0, 1, 7, (1u64 << 53) + 1, 3_000_000_000_000_000, u64::MAX];
        let mut i = 0;
        while i < us.len() {
            match <A as Convert<B>>::convert(Observation::Unsigned(us[i])) {
                Observation::Unsigned(v) => assert!(ratio == 1.0 && v == us[i]),
                Observation::Floating(f) => assert!(ratio != 1.0 && same_bits(f, (us[i] as f64) * ratio)),
                _ => assert!(false),
            }
            i += 1;
        }
        let fs: [f64; 6] = [0.0, 1.0, -3.5, 1.0e300, 4.9e-324, 123456.789];
        let mut i = 0;
        while i < fs.len() {
            match <A as Convert<B>>::convert(Observation::Floating(fs[i])) {
                Observation::Floating(f) => assert!(same_bits(f, if ratio == 1.0 { fs[i] } else { fs[i] * ratio })),
                _ => assert!(false),
            }
            match <A as Convert<B>>::convert(Observation::Repeated { total: fs[i], occurrences: 3 }) {
                Observation::Repeated { total, occurrences } => assert!(occurrences == 3 && same_bits(total, if ratio == 1.0 { fs[i] } else { fs[i] * ratio })),
                _ => assert!(false),
            }
            i += 1;
        }
    }
    #[kani::proof]
    fn convert_structure_all_observations() {
        check_convert_structure::<Second, Millisecond>();
        check_convert_structure::<Millisecond, Millisecond>();
        check_convert_structure::<Microsecond, Second>();
        check_convert_structure::<Kilobyte, Bit>();
        check_convert_structure::<Terabyte, Bit>();
        check_convert_structure::<Bit, TerabytePerSecond>();
        check_convert_structure::<None, Percent>();
    }
    #[kani::proof]
    #[kani::unwind(8)]
    fn convert_values_on_probes() {
        check_convert_values::<Second, Millisecond>();
        check_convert_values::<Millisecond, Millisecond>();
        check_convert_values::<Microsecond, Second>();
        check_convert_values::<Kilobyte, Bit>();
        check_convert_values::<Terabyte, Bit>();
        check_convert_values::<Gigabyte, Byte>();
        check_convert_values::<Bit, TerabytePerSecond>();
        check_convert_values::<None, Percent>();
    }

    // ---- WithUnit: unit check, then convert -----------------------------------------------------
    struct Rec<'r> { metric_calls: &'r mut u8, error_calls: &'r mut u8, string_calls: &'r mut u8, unit: &'r mut Unit, first: &'r mut Option<Observation> }
    impl ValueWriter for Rec<'_> {
        fn string(self, _value: &str) { *self.string_calls += 1; }
        fn metric<'a>(self, distribution: impl IntoIterator<Item = Observation>, unit: Unit,
                      _dimensions: impl IntoIterator<Item = (&'a str, &'a str)>, _flags: MetricFlags<'_>) {
            *self.metric_calls += 1;
            *self.unit = unit;
            *self.first = distribution.into_iter().next();
        }
        fn error(self, _error: ValidationError) { *self.error_calls += 1; }
        // the default `invalid` builds a String with format!; override only the message construction cost
        fn invalid(self, _reason: impl Into<String>) { *self.error_calls += 1; }
    }
    // a value that promises milliseconds but writes whatever unit it is told to
    struct Lying { obs: Observation, writes: Unit, as_string: bool }
    impl Value for Lying {
        fn write(&self, writer: impl ValueWriter) {
            if self.as_string { writer.string("x") } else { writer.metric([self.obs], self.writes, [], MetricFlags::empty()) }
        }
    }
    impl MetricValue for Lying { type Unit = Millisecond; }

    fn run_with_unit(l: Lying) -> (u8, u8, u8, Unit, Option<Observation>) {
        let (mut m, mut e, mut s, mut u, mut f) = (0u8, 0u8, 0u8, Unit::None, Option::None);
        let w: WithUnit<Lying, Second> = l.into();
        w.write(Rec { metric_calls: &mut m, error_calls: &mut e, string_calls: &mut s, unit: &mut u, first: &mut f });
        (m, e, s, u, f)
    }

    // the error message text is irrelevant here; formatting machinery dominates CBMC's cost
    fn stub_format(_args: std::fmt::Arguments<'_>) -> String { String::new() }

    #[kani::proof]
    #[kani::stub(std::fmt::format, stub_format)]
    fn with_unit_checks_then_converts() {
        let x: u32 = if kani::any() { 0 } else if kani::any() { 1500 } else { u32::MAX }; // concrete probes (see above)
        // honest value: one metric call, with the DECLARED unit and the converted number
        let (m, e, s, u, f) = run_with_unit(Lying { obs: Observation::Unsigned(x as u64), writes: Unit::Second(NegativeScale::Milli), as_string: false });
        assert!(m == 1 && e == 0 && s == 0);
        assert!(u == Unit::Second(NegativeScale::One));
        match f { Some(Observation::Floating(v)) => assert!(v.to_bits() == ((x as f64) * <Millisecond as Convert<Second>>::RATIO).to_bits()), _ => assert!(false) }
        // a value that writes another unit than it promised: validation error, no (wrongly scaled) number
        let (m, e, s, _, _) = run_with_unit(Lying { obs: Observation::Unsigned(x as u64), writes: Unit::Second(NegativeScale::Micro), as_string: false });
        assert!(m == 0 && e == 1 && s == 0);
        // ... whatever the other unit is: unitless, a count, the same family at another scale, another family
        let wrong: u8 = kani::any();
        let other = match wrong % 6 {
            0 => Unit::None,
            1 => Unit::Count,
            2 => Unit::Percent,
            3 => Unit::Second(NegativeScale::One),
            4 => Unit::Byte(PositiveScale::One),
            _ => Unit::BitPerSecond(PositiveScale::Kilo),
        };
        let (m, e, s, _, _) = run_with_unit(Lying { obs: Observation::Unsigned(x as u64), writes: other, as_string: false });
        assert!(m == 0 && e == 1 && s == 0);
        // a unit attached to a string: validation error
        let (m, e, s, _, _) = run_with_unit(Lying { obs: Observation::Unsigned(0), writes: Unit::None, as_string: true });
        assert!(m == 0 && e == 1 && s == 0);
    }

    // Durations are reported in milliseconds (concrete probes, NOT a proof: the two float operations relate a symbolic Duration to its
    // millisecond value in a way CBMC did not decide in 900 s): one Floating observation, unit Second(Milli), value bit-for-bit
    // (secs + nanos / 1e9) * 1000 computed offline.
    #[kani::proof]
    #[kani::unwind(11)]
    fn duration_millis_probes() {
        let probes: [(u64, u32, u64); 9] = [(0, 0, 0x0000000000000000), (0, 1, 0x3eb0c6f7a0b5ed8e), (0, 1500000, 0x3ff8000000000000), (1, 0, 0x408f400000000000), (1, 500000000, 0x4097700000000000), (59, 999999999, 0x40ed4bfffffde722), (3600, 250000000, 0x414b77bd00000000), (86400, 1, 0x4194997000000043), (1000000000, 123456789, 0x426d1a94a20f6e9e)];
        let mut i = 0;
        while i < probes.len() {
            let (secs, nanos, bits) = probes[i];
            let d = core::time::Duration::new(secs, nanos);
            let (mut m, mut e, mut s, mut u, mut f) = (0u8, 0u8, 0u8, Unit::None, Option::None);
            Value::write(&d, Rec { metric_calls: &mut m, error_calls: &mut e, string_calls: &mut s, unit: &mut u, first: &mut f });
            assert!(m == 1 && e == 0 && s == 0);
            assert!(u == Unit::Second(NegativeScale::Milli));
            match f { Some(Observation::Floating(v)) => assert!(v.to_bits() == bits), _ => assert!(false) }
            i += 1;
        }
    }
}
