// Appended to metrique-writer-format-emf/src/json_string.rs under #[cfg(kani)] in a scratch copy (C02, BOUNDED: one-character
// strings).  For every single ASCII character (every control character, quote, backslash, DEL), the real json_string appends a well-formed JSON string literal: it starts and ends with an unescaped
// quote, contains no raw control character (< 0x20), every backslash starts a valid escape, and nothing before the literal is touched.
#[cfg(kani)]
mod verif_kani {
    use super::*;

    fn well_formed_literal(b: &[u8]) -> bool {
        let n = b.len();
        if n < 2 || b[0] != b'"' || b[n - 1] != b'"' { return false; }
        let mut i = 1;
        while i < n - 1 {
            let c = b[i];
            if c < 0x20 || c == b'"' { return false; }
            if c == b'\\' {
                if i + 1 >= n - 1 { return false; }
                let e = b[i + 1];
                if e == b'u' {
                    if i + 5 >= n - 1 + 0 && i + 5 > n - 2 { return false; }
                    let mut k = 2;
                    while k < 6 {
                        let h = b[i + k];
                        if !(h.is_ascii_digit() || (b'a'..=b'f').contains(&h) || (b'A'..=b'F').contains(&h)) { return false; }
                        k += 1;
                    }
                    i += 6;
                    continue;
                }
                if !(e == b'"' || e == b'\\' || e == b'/' || e == b'b' || e == b'f' || e == b'n' || e == b'r' || e == b't') { return false; }
                i += 2;
                continue;
            }
            i += 1;
        }
        true
    }

    // concrete enumeration (each iteration is a concrete run of the real encoder): all 32 control characters, quote, backslash, DEL, 'a'
    #[kani::proof]
    #[kani::unwind(40)]
    fn json_string_control_characters() {
        let mut c: u8 = 0;
        while c < 36 {
            let b0 = if c < 32 { c } else if c == 32 { b'"' } else if c == 33 { b'\\' } else if c == 34 { 0x7f } else { b'a' };
            let raw = [b0];
            let value = unsafe { core::str::from_utf8_unchecked(&raw) };
            let mut s = String::with_capacity(16);
            s.json_string(value);
            assert!(well_formed_literal(s.as_bytes()));
            c += 1;
        }
    }
}
