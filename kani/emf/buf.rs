// Appended to metrique-writer-format-emf/src/buf.rs under #[cfg(kani)] in a scratch copy.
// A child module sees the parent's private items, so the REAL advance_slices / write_all_vectored
// / PrefixedStringBuf methods are called directly.
#[cfg(kani)]
mod verif_kani {
    use super::*;

    const MAXLEN: usize = 4; // backing array length per slice (contents irrelevant to advance_slices)

    /// total length of the remaining slices
    fn total(s: &[&[u8]]) -> usize {
        let mut t = 0usize;
        let mut i = 0;
        while i < s.len() {
            t += s[i].len();
            i += 1;
        }
        t
    }

    // advance_slices contract, for N slices with symbolic lengths 0..=MAXLEN and symbolic contents:
    //   requires count <= sum(len)
    //   ensures  the remaining slices are exactly the suffix of the concatenation after `count` bytes,
    //            and (when count > 0 or always for leading position) no leading empty slice remains
    //            unless nothing is left.
    fn check_advance<const N: usize>() {
        let backing: [[u8; MAXLEN]; N] = kani::any();
        let lens: [usize; N] = kani::any();
        let mut refs: [&[u8]; N] = [&[]; N];
        let mut concat = [0u8; 64];
        let mut tot = 0usize;
        let mut i = 0;
        while i < N {
            kani::assume(lens[i] <= MAXLEN);
            refs[i] = &backing[i][..lens[i]];
            let mut j = 0;
            while j < lens[i] {
                concat[tot + j] = backing[i][j];
                j += 1;
            }
            tot += lens[i];
            i += 1;
        }
        let count: usize = kani::any();
        kani::assume(count <= tot);
        kani::cover!(count > 0 && count < tot, "partial advance reachable");
        let mut slices: &mut [&[u8]] = &mut refs[..];
        advance_slices(&mut slices, count);
        // remaining bytes == concat[count..tot], in order
        assert!(total(slices) == tot - count);
        let mut pos = count;
        let mut k = 0;
        while k < slices.len() {
            let mut j = 0;
            while j < slices[k].len() {
                assert!(slices[k][j] == concat[pos]);
                pos += 1;
                j += 1;
            }
            k += 1;
        }
        assert!(pos == tot);
        // no leading empty slice (so write_vectored is never called with an empty first buffer,
        // and `slices.is_empty()` <=> everything written)
        if !slices.is_empty() {
            assert!(!slices[0].is_empty());
        }
        assert!(slices.is_empty() == (count == tot));
    }

    #[kani::proof]
    #[kani::unwind(6)]
    fn advance_slices_1() { check_advance::<1>() }
    #[kani::proof]
    #[kani::unwind(6)]
    fn advance_slices_2() { check_advance::<2>() }
    #[kani::proof]
    #[kani::unwind(6)]
    fn advance_slices_3() { check_advance::<3>() }
    #[kani::proof]
    #[kani::unwind(7)]
    fn advance_slices_5() { check_advance::<5>() }

    // assert_eq!(remaining, 0) must fire when count exceeds the total (the precondition is necessary):
    #[kani::proof]
    #[kani::unwind(6)]
    #[kani::should_panic]
    fn advance_slices_overrun_panics() {
        let a = [1u8, 2];
        let mut refs: [&[u8]; 1] = [&a[..]];
        let mut slices: &mut [&[u8]] = &mut refs[..];
        advance_slices(&mut slices, 3);
    }

    // ------------------------------------------------------------------------------------------
    // write_all_vectored against a scripted writer (BOUNDED: N slices of <= 2 bytes, <= MAX_CALLS calls).
    // The writer checks, at EVERY call, that what it is offered is exactly the not-yet-accepted suffix
    // (by total length; that the remaining slices ARE the suffix byte for byte is advance_slices' proof above)
    // and never starts with an empty buffer; per call it accepts any 1..=offered bytes, or reports
    // Interrupted, Ok(0) or a hard error.
    // ------------------------------------------------------------------------------------------
    const MAX_CALLS: usize = 3;
    struct Script {
        total: usize,
        accepted: usize,
        calls: usize,
    }
    impl io::Write for Script {
        fn write(&mut self, buf: &[u8]) -> io::Result<usize> {
            self.write_vectored(&[io::IoSlice::new(buf)])
        }
        fn write_vectored(&mut self, bufs: &[io::IoSlice<'_>]) -> io::Result<usize> {
            self.calls += 1;
            kani::assume(self.calls <= MAX_CALLS);
            let mut offered = 0usize;
            let mut i = 0;
            while i < bufs.len() {
                offered += bufs[i].len();
                i += 1;
            }
            assert!(!bufs.is_empty() && !bufs[0].is_empty());          // never an empty first buffer
            assert!(offered == self.total - self.accepted);            // exactly the remaining bytes: nothing duplicated, nothing omitted
            let act: u8 = kani::any();
            match act {
                0 => Err(io::ErrorKind::Interrupted.into()),
                1 => Ok(0),
                2 => Err(io::ErrorKind::Other.into()),
                _ => {
                    let k: usize = kani::any();
                    kani::assume(k >= 1 && k <= offered);
                    self.accepted += k;
                    Ok(k)
                }
            }
        }
        fn flush(&mut self) -> io::Result<()> {
            Ok(())
        }
    }

    struct Bytes {
        data: [u8; 2],
        len: usize,
    }
    impl AsRef<[u8]> for Bytes {
        fn as_ref(&self) -> &[u8] {
            &self.data[..self.len]
        }
    }

    fn check_scripted<const N: usize>() {
        let mut total = 0usize;
        let mut v: SmallVec<[Bytes; N]> = SmallVec::new();
        let mut i = 0;
        while i < N {
            let b = Bytes { data: [0xA0 + i as u8, 0xB0 + i as u8], len: kani::any() };
            kani::assume(b.len <= 2);
            total += b.len;
            v.push(b);
            i += 1;
        }
        let mut w = Script { total, accepted: 0, calls: 0 };
        let r = write_all_vectored(v, &mut w);
        let ok = r.is_ok();
        match r {
            // success <=> everything was delivered exactly once
            Ok(()) => {
                assert!(w.accepted == total);
            }
            // a zero-length write is surfaced as WriteZero, a hard error unchanged; Interrupted is never surfaced
            Err(e) => {
                assert!(e.kind() == io::ErrorKind::WriteZero || e.kind() == io::ErrorKind::Other);
            }
        }
        kani::cover!(ok && w.calls >= 2, "multi-call success reachable");
        kani::cover!(!ok, "error reachable");
    }

    #[kani::proof]
    #[kani::unwind(5)]
    fn write_all_vectored_scripted_1() { check_scripted::<1>() }

    #[kani::proof]
    #[kani::unwind(6)]
    fn write_all_vectored_scripted_2() { check_scripted::<2>() }

    #[kani::proof]
    #[kani::unwind(8)]
    fn write_all_vectored_scripted_3() { check_scripted::<3>() }
}
