"""Unit `dropinner` (C06): the terminal step of append-on-drop (metrique/src/lib.rs): when the inner value of an
AppendAndCloseOnDrop is dropped, the entry is taken, closed and appended to the sink exactly once - the entry as it stands at that
moment, i.e. with every mutation made through the owner.  Drop::drop is verified as an inherent method so that the type invariant
"the entry is present until drop" can be a precondition.  WHEN the inner value is dropped is the keep-alive protocol (Kani group
`keepalive`, bounded)."""

NAME = "dropinner"
PROPERTIES = ["C06"]
L = "metrique/src/lib.rs"

PRELUDE = r'''
pub trait CloseValue: Sized { type Closed; spec fn closed(self) -> Self::Closed; fn close(self) -> (r: Self::Closed) ensures r == self.closed(); }
pub trait CloseEntry: CloseValue {}
pub trait InflectableEntry {}
pub uninterp spec fn was_appended<S, E>(sink: S, entry: E) -> bool;
pub trait EntrySink<E>: Sized {
    // one call hands one entry to the sink
    fn append(&self, entry: E) ensures was_appended(*self, entry);
}
pub type RootMetric<E> = RootEntry<<E as CloseValue>::Closed>;
'''

ITEMS = [
    # (type level only) RootEntry is declared without its `M: InflectableEntry` bound: this Verus loses the associated-type bound
    # `CloseEntry: CloseValue<Closed: InflectableEntry>` that makes RootMetric<E> well-formed
    dict(kind="raw", label="RootEntry (bound dropped)", text="#[verifier::reject_recursive_types(M)]\npub struct RootEntry<M> { pub metric: M }\n"),
    dict(kind="fn", file=L, impl=r"^impl < M : InflectableEntry > RootEntry < M >$", name="new", ret="r", label="RootEntry::new",
         impl_header_override="impl<M> RootEntry<M>",
         ensures="r.metric == metric,"),
    dict(kind="struct", file=L, name="AppendAndCloseOnDropInner", attrs=["#[verifier::reject_recursive_types(E)]", "#[verifier::reject_recursive_types(S)]"]),
    dict(kind="fn", file=L, impl=r"^impl < E : CloseEntry , S : EntrySink < RootMetric < E >> > Drop for AppendAndCloseOnDropInner < E , S >$", name="drop", label="AppendAndCloseOnDropInner::drop",
         impl_header_override="impl<E: CloseEntry, S: EntrySink<RootMetric<E>>> AppendAndCloseOnDropInner<E, S>",
         requires="old(self).entry is Some,",
         ensures="""
            // C06: the entry - as it stands when the inner value is dropped - is closed and appended, once; afterwards it is gone
            was_appended(old(self).sink, RootEntry { metric: old(self).entry->0.closed() }),         // OBL drop_closes_and_appends_the_entry
            final(self).entry is None,                                                               // OBL entry_is_taken_so_it_cannot_be_appended_again
            final(self).sink == old(self).sink,
         """),
]
POSTLUDE = ""
CANARY = dict(fn="AppendAndCloseOnDropInner::drop", replace=("final(self).entry is None,", "final(self).entry is Some,"))
