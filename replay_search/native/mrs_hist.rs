// Native replay search for unit mrs_hist (C20): is a histogram bucket drained by the metrics.rs bridge reported with its count and
// a total of value x count?  Candidate inputs: a few samples of one large value (the verifier's failed obligation is an integer
// overflow in the bucket -> observation conversion, so the search uses values whose product with the count leaves 32 bits).
use metrics_024::{histogram, with_local_recorder};
use metrique_metricsrs::MetricRecorder;
use metrique_writer_core::{format::Format, test_stream::DummyFormat};

fn run(value: u32, times: u32) -> Result<(f64, u64), String> {
    let r = std::panic::catch_unwind(|| {
        let recorder: MetricRecorder<dyn metrics_024::Recorder> = MetricRecorder::new();
        with_local_recorder(&recorder, || {
            let h = histogram!("test");
            for _ in 0..times { h.record(value); }
        });
        let readout = recorder.readout();
        let mut writer = DummyFormat;
        let mut output = Vec::new();
        writer.format(&readout, &mut output).unwrap();
        String::from_utf8(output).unwrap()
    });
    let out = match r { Ok(o) => o, Err(_) => return Err("panicked while writing the readout".to_string()) };
    // [... Repeated { total: T, occurrences: N } ...]
    let mut total = 0.0f64; let mut occ = 0u64; let mut rest = out.as_str();
    while let Some(i) = rest.find("total: ") {
        rest = &rest[i + 7..];
        let j = rest.find(',').ok_or("parse")?;
        total += rest[..j].parse::<f64>().map_err(|e| e.to_string())?;
        let k = rest.find("occurrences: ").ok_or("parse")?;
        rest = &rest[k + 13..];
        let e = rest.find(' ').ok_or("parse")?;
        occ += rest[..e].parse::<u64>().map_err(|e| e.to_string())?;
    }
    Ok((total, occ))
}

#[test]
fn verif_replay_search() {
    let mut n = 0;
    for &(value, times) in &[(3_000_000_000u32, 2u32), (4_000_000_000, 3), (2_200_000_000, 2), (70_000, 70_000), (1, 3), (1000, 5)] {
        n += 1;
        let want = value as f64 * times as f64;
        match run(value, times) {
            Ok((total, occ)) => {
                if occ != times as u64 || (total - want).abs() > want * 0.07 {
                    println!("FAILING_INPUT: histogram!(\"test\").record({value}) x {times}, then one readout written through DummyFormat");
                    println!("FAILURE: reported occurrences = {occ} (want {times}), reported total = {total} (want {want} within the 6.25% bucket error)");
                    panic!("postcondition violated");
                }
            }
            Err(e) => {
                println!("FAILING_INPUT: histogram!(\"test\").record({value}) x {times}, then one readout written through DummyFormat");
                println!("FAILURE: {e}");
                panic!("postcondition violated");
            }
        }
    }
    println!("SEARCHED: {n} (value, repetitions) pairs incl. products beyond 32 bits: occurrences exact, total within bucket error");
}
