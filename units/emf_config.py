"""Unit `emf_config` (C08): EntryWriter::config (metrique-writer-format-emf/src/emf.rs) - the validation of an entry-wide dimension
configuration (EntryDimensions) and the two switch configurations.

Proved, for every configuration object and writer state: an EntryDimensions is rejected (one validation error, nothing else changes)
when a metric with its own dimensions was already written, when entry dimensions were already set, or when it is empty; otherwise the
entry's dimension sets become the product of the formatter's default sets with the configured ones (K4), every name already written as
a string or metric keeps its record (validation never downgrades what was written), names are only ever added to the validation map, and
with both dimension validations switched off the map and the error count do not change at all.  AllowSplitEntries /
AllowUnroutableEntries only raise their flag.  config never touches the formatter's buffers.

Exact-text rewrites: K1-K3 `(config as &dyn Any).downcast_ref::<T>()` -> a stand-in that answers whether the object is a T;
K4 the `flat_map` product chain -> verif_dimension_product (the product itself is NOT verified).  Iterators yield arbitrary items (as in
unit emf_finish): the loop bodies are verified for any dimension name."""
import re
from units import emf_validate, emf_finish

NAME = "emf_config"
OUTER = emf_validate.OUTER
PROPERTIES = ["C08"]
EMF = emf_validate.EMF


def k1(text):
    """K1: (config as &dyn Any).downcast_ref::<EntryDimensions>() -> verif_as_entry_dimensions(config)"""
    pat = r"\(config as &dyn Any\)\s*\.downcast_ref::<EntryDimensions>\(\)"
    n = len(re.findall(pat, text))
    return re.sub(pat, "verif_as_entry_dimensions(config)", text), n


def k2(text):
    """K2: (config as &dyn Any).downcast_ref::<AllowSplitEntries>().is_some() -> verif_is_allow_split(config)"""
    pat = r"\(config as &dyn Any\)\s*\.downcast_ref::<AllowSplitEntries>\(\)\s*\.is_some\(\)"
    n = len(re.findall(pat, text))
    return re.sub(pat, "verif_is_allow_split(config)", text), n


def k3(text):
    """K3: (config as &dyn Any).downcast_ref::<AllowUnroutableEntries>().is_some() -> verif_is_allow_unroutable(config)"""
    pat = r"\(config as &dyn Any\)\s*\.downcast_ref::<AllowUnroutableEntries>\(\)\s*\.is_some\(\)"
    n = len(re.findall(pat, text))
    return re.sub(pat, "verif_is_allow_unroutable(config)", text), n


def k4(text):
    """K4: self.state.each_dimensions_str.iter().flat_map(|d| { dimensions.dim_sets().map(|e| d.clone().to_owned().extend_with_strings(e)) }).collect()
    -> verif_dimension_product(&self.state.each_dimensions_str, dimensions)"""
    pat = r"self\s*\.state\s*\.each_dimensions_str\s*\.iter\(\)\s*\.flat_map\(\|d\| \{\s*dimensions\s*\.dim_sets\(\)\s*\.map\(\|e\| d\.clone\(\)\.to_owned\(\)\.extend_with_strings\(e\)\)\s*\}\)\s*\.collect\(\)"
    n = len(re.findall(pat, text))
    return re.sub(pat, "verif_dimension_product(&self.state.each_dimensions_str, dimensions)", text), n


_P = emf_validate.PRELUDE
_ER = "pub use hashbrown::EntryRef;"
assert _ER in _P
_EN = "    pub enum EntryRef<'a, K, V> { Occupied(OccupiedEntry<'a, K, V>), Vacant(VacantEntryRef<'a, K, V>) }\n"
assert _EN in _P
_SZ = "pub fn entry_ref<'a, 'b, Q: KeyView>("
assert _SZ in _P
_P = _P.replace(_SZ, "pub fn entry_ref<'a, 'b, Q: KeyView + ?Sized>(")
PRELUDE = _P.replace(_EN, _EN + "    pub mod hash_map { pub use super::EntryRef; }\n").replace(_ER, _ER + "\nimpl KeyView for str { open spec fn kview(&self) -> Seq<char> { self@ } }") + r'''
pub mod hashbrown_paths { }
impl<K, V> hashbrown::HashMap<K, V> {
    #[verifier::external_body]
    pub fn is_empty(&self) -> (r: bool) ensures r == (forall|k: Seq<char>| !self@.contains_key(k)) { unimplemented!() }
}
pub trait EntryConfig {}
// the configuration objects a format looks for (downcasts K1-K3): what kind of object this is
#[verifier::external_body] pub struct EntryDimensions { _p: u8 }
pub uninterp spec fn as_entry_dims(c: &dyn EntryConfig) -> Option<EntryDimensions>;
pub uninterp spec fn is_allow_split(c: &dyn EntryConfig) -> bool;
pub uninterp spec fn is_allow_unroutable(c: &dyn EntryConfig) -> bool;
#[verifier::external_body]
pub fn verif_as_entry_dimensions<'a>(c: &'a dyn EntryConfig) -> (r: Option<&'a EntryDimensions>)
    ensures (r is Some) == (as_entry_dims(c) is Some), r is Some ==> *r->0 == as_entry_dims(c)->0 { unimplemented!() }
#[verifier::external_body] pub fn verif_is_allow_split(c: &dyn EntryConfig) -> (r: bool) ensures r == is_allow_split(c) { unimplemented!() }
#[verifier::external_body] pub fn verif_is_allow_unroutable(c: &dyn EntryConfig) -> (r: bool) ensures r == is_allow_unroutable(c) { unimplemented!() }
// iteration: arbitrary items (the loop bodies are verified for any dimension set and any dimension name)
pub trait VerifIntoIter { type It; fn vi(self) -> Self::It; }
pub fn verif_iter<T: VerifIntoIter>(t: T) -> T::It { t.vi() }
#[verifier::external_body] pub struct DimSetsIter<'a> { _p: &'a u8 }
#[verifier::external_body] pub struct DimensionsIterator<'a> { _p: &'a u8 }
impl<'a> DimSetsIter<'a> { #[verifier::external_body] pub fn next(&mut self) -> Option<DimensionsIterator<'a>> { unimplemented!() } }
impl<'a> DimensionsIterator<'a> { #[verifier::external_body] pub fn next(&mut self) -> Option<&'a str> { unimplemented!() } }
impl<'a> VerifIntoIter for DimSetsIter<'a> { type It = DimSetsIter<'a>; fn vi(self) -> Self::It { self } }
impl<'a> VerifIntoIter for DimensionsIterator<'a> { type It = DimensionsIterator<'a>; fn vi(self) -> Self::It { self } }
impl EntryDimensions {
    pub uninterp spec fn n_sets(&self) -> nat;
    #[verifier::external_body] pub fn is_empty(&self) -> (r: bool) ensures r == (self.n_sets() == 0) { unimplemented!() }
    #[verifier::external_body] pub fn dim_sets<'a>(&'a self) -> DimSetsIter<'a> { unimplemented!() }
}
// K4: the product of the formatter's default dimension sets with the configured ones (not verified)
pub uninterp spec fn dim_product(each: Seq<JsonEncodedArray>, dims: EntryDimensions) -> Seq<JsonEncodedArray>;
#[verifier::external_body]
pub fn verif_dimension_product(each: &Vec<JsonEncodedArray>, dims: &EntryDimensions) -> (r: Vec<JsonEncodedArray>)
    ensures r@ == dim_product(each@, *dims) { unimplemented!() }
// validation never downgrades what was written, and only ever adds names
pub open spec fn vm_monotone(a: Map<Seq<char>, LineData>, b: Map<Seq<char>, LineData>) -> bool {
    &&& forall|k: Seq<char>| #[trigger] a.contains_key(k) ==> b.contains_key(k) && (is_written(a[k].kind) ==> b[k] == a[k])
    // a name that config adds is recorded as a dimension that has not been supplied yet
    &&& forall|k: Seq<char>| !a.contains_key(k) && #[trigger] b.contains_key(k) ==> b[k].kind is UnfoundDimension
}
pub open spec fn no_own_dims(s: State) -> bool { forall|k: Seq<char>| !s.dimension_set_map@.contains_key(k) }
'''

_EW = r"^impl < 'a > metrique_writer_core :: EntryWriter < 'a > for EntryWriter < 'a >$"
_INV = """
            invariant
                *self.state == verif_state0,
                self.error.count() >= verif_e0,
                verif_val0.skip_validate_unique ==> self.error.count() == verif_e0,
                vm_monotone(verif_vm0, self.validation_map@),
                self.entry_dimensions == verif_ed0,
                self.timestamp == verif_ts0, self.multiplicity == verif_mu0,
                self.allow_split_entries == verif_as0, self.is_allow_unroutable_entries == verif_au0,
                self.validations == verif_val0,
"""

ITEMS = [
    dict(kind="struct", file=EMF, name="LineKind"),
    dict(kind="struct", file=EMF, name="LineData"),
    dict(kind="struct", file=EMF, name="Validation"),
    dict(kind="struct", file=EMF, name="State"),
    dict(kind="struct", file=EMF, name="EntryWriter"),
    dict(kind="fn", file=EMF, impl=_EW, name="config", label="EntryWriter::config",
         impl_header_override="impl<'a> EntryWriter<'a>", desugar_for=True,
         attrs=["#[verifier::exec_allows_no_decreases_clause]"],
         rules={"k1": 1, "k2": 1, "k3": 1, "k4": 1}, pre_rewrites=[k1, k2, k3, k4],
         sig_replace=[("&'a dyn EntryConfig", "&'a dyn EntryConfig")],
         ensures="""
            // C08: config never touches the formatter's buffers, the timestamp or the sampling multiplicity
            *final(self).state == *old(self).state, final(self).timestamp == old(self).timestamp, final(self).multiplicity == old(self).multiplicity,   // OBL config_touches_no_buffer
            // an EntryDimensions is rejected - one error, nothing else changes - after a metric with its own dimensions, when set twice, when empty
            (as_entry_dims(config) is Some && (!no_own_dims(*old(self).state) || old(self).entry_dimensions is Some || as_entry_dims(config)->0.n_sets() == 0))
                ==> final(self).error.count() == old(self).error.count() + 1 && final(self).entry_dimensions == old(self).entry_dimensions
                    && final(self).validation_map@ == old(self).validation_map@,                                                        // OBL entry_dimensions_rejected_exactly_when
            // otherwise it is accepted: the entry's dimension sets are the product with the configured sets; what was written stays
            (as_entry_dims(config) is Some && no_own_dims(*old(self).state) && old(self).entry_dimensions is None && as_entry_dims(config)->0.n_sets() > 0)
                ==> final(self).entry_dimensions is Some
                    && final(self).entry_dimensions->0@ == dim_product(old(self).state.each_dimensions_str@, as_entry_dims(config)->0)
                    && final(self).error.count() >= old(self).error.count()
                    && (old(self).validations.skip_validate_unique ==> final(self).error.count() == old(self).error.count())
                    && vm_monotone(old(self).validation_map@, final(self).validation_map@),                                              // OBL entry_dimensions_accepted
            // with both dimension validations off the switches only gate the checks
            (old(self).validations.skip_validate_unique && old(self).validations.skip_validate_dimensions_exist && as_entry_dims(config) is Some
                && no_own_dims(*old(self).state) && old(self).entry_dimensions is None && as_entry_dims(config)->0.n_sets() > 0)
                ==> final(self).validation_map@ == old(self).validation_map@ && final(self).error.count() == old(self).error.count(),     // OBL switches_only_gate_the_checks
            as_entry_dims(config) is None ==> final(self).entry_dimensions == old(self).entry_dimensions && final(self).validation_map@ == old(self).validation_map@
                && final(self).error.count() == old(self).error.count(),
            // the two switch configurations only raise their flag
            as_entry_dims(config) is None ==> final(self).allow_split_entries == (old(self).allow_split_entries || is_allow_split(config))
                && final(self).is_allow_unroutable_entries == (old(self).is_allow_unroutable_entries || is_allow_unroutable(config)),                    // OBL switch_configs_raise_their_flag
            final(self).allow_split_entries ==> old(self).allow_split_entries || is_allow_split(config),
            final(self).is_allow_unroutable_entries ==> old(self).is_allow_unroutable_entries || is_allow_unroutable(config),
         """,
         loops={1: _INV, 2: _INV},
         proofs=[("start", None, "let ghost verif_state0 = *self.state; let ghost verif_e0 = self.error.count(); let ghost verif_vm0 = self.validation_map@; let ghost verif_ed0 = self.entry_dimensions; "
                                 "let ghost verif_ts0 = self.timestamp; let ghost verif_mu0 = self.multiplicity; let ghost verif_as0 = self.allow_split_entries; let ghost verif_au0 = self.is_allow_unroutable_entries; let ghost verif_val0 = self.validations;")]),
]
POSTLUDE = ""
CANARY = dict(fn="EntryWriter::config", replace=("final(self).entry_dimensions is Some\n", "final(self).entry_dimensions is None\n"))
