"""Unit `slot` (C13): the sequential half of the slot protocol (metrique/src/slot.rs).

Under contract: make_slot, Slot::new, Slot::open, LazySlot::open, SlotGuard::delay_flush, SlotGuard's Drop::drop (verified as an
inherent method: a trait impl cannot carry the type invariant "a live guard is Writable" as a precondition), Waiting::take_value,
Slot::close.  The oneshot channel is a stand-in: `send` is witnessed by `sent(tx, v)`, `try_recv` returns either nothing or a value
`delivered` on that receiver.  What stays outside: that a value sent before the parent closes is the one try_recv delivers
(tokio), and the release order of the flush guard across threads (Rust drops a struct's fields after Drop::drop returns)."""

NAME = "slot"
PROPERTIES = ["C13"]
S = "metrique/src/slot.rs"
VARIANT_DEFAULTS = {"slot_inv": "exclusive"}
# failures of these obligations only say that the candidate invariant of a variant is not the code's invariant (vf/check.py, any_of)
INVARIANT_OBLIGATIONS = ["wait_preserves_the_slot_invariant"]

def r_async(text):
    """RA: `.await` -> `.verif_await()`: awaiting the oneshot receiver is a call that returns when the sender was consumed or dropped
    (the `async` keyword of the signature is dropped by sig_replace); suspension points have no effect on the slot's own fields, which
    are exclusively borrowed for the whole call"""
    n = text.count(".await")
    return text.replace(".await", ".verif_await()"), n


def _inv_text(repo, variant, bu):
    inv = (variant or {}).get("slot_inv", "exclusive")
    body = {"exclusive": "!(data_some && rx_some)", "open": "true"}[inv]
    return ("// representation invariant of Slot between calls (variant `%s`): the receiver is given up when the value is stored\n"
            "pub open spec fn slot_inv(data_some: bool, rx_some: bool) -> bool { %s }\n" % (inv, body))


def r_async_call(text):
    """RA2: `f().await` where f is an async fn of this unit verified as an ordinary fn (RA): `.await` is dropped"""
    n = text.count(".await")
    return text.replace(".await", ""), n


PRELUDE = r'''
pub assume_specification<T>[ std::mem::replace ](dest: &mut T, src: T) -> (r: T) ensures r == *old(dest), *final(dest) == src;
pub trait CloseValue: Sized {
    type Closed;
    spec fn closed(self) -> Self::Closed;
    fn close(self) -> (r: Self::Closed) ensures r == self.closed();
}
// keep-alive guard of the parent entry (metrique/src/keep_alive.rs): opaque here
#[verifier::external_body] pub struct Guard { _p: u8 }
pub fn drop<T>(t: T) {}
pub mod oneshot {
    use vstd::prelude::*;
    #[verifier::external_body] #[verifier::reject_recursive_types(V)] pub struct Sender<V> { _p: core::marker::PhantomData<V> }
    #[verifier::external_body] #[verifier::reject_recursive_types(V)] pub struct Receiver<V> { _p: core::marker::PhantomData<V> }
    #[verifier::external_body] pub struct TryRecvError { _p: u8 }
    pub uninterp spec fn paired<V>(tx: Sender<V>, rx: Receiver<V>) -> bool;
    pub uninterp spec fn sent<V>(tx: Sender<V>, v: V) -> bool;
    pub uninterp spec fn delivered<V>(rx: Receiver<V>, v: V) -> bool;
    #[verifier::external_body]
    pub fn channel<V>() -> (r: (Sender<V>, Receiver<V>)) ensures paired(r.0, r.1) { unimplemented!() }
    impl<V> Sender<V> {
        // consumes the sender: at most one value is ever sent
        #[verifier::external_body] pub fn send(self, v: V) -> (r: Result<(), V>) ensures sent(self, v) { unimplemented!() }
        #[verifier::external_body] pub fn is_closed(&self) -> bool { unimplemented!() }
    }
    impl<V> Receiver<V> {
        // never waits: either nothing yet / closed, or the value sent on the paired sender
        #[verifier::external_body]
        pub fn try_recv(&mut self) -> (r: Result<V, TryRecvError>) ensures r is Ok ==> delivered(*old(self), r->Ok_0) { unimplemented!() }
        // whether a value is waiting right now: an arbitrary answer
        #[verifier::external_body]
        pub fn is_empty(&self) -> bool { unimplemented!() }
        // RA: `rx.await` - returns once the sender was consumed (Ok: the value it sent) or dropped unsent (Err)
        #[verifier::external_body]
        pub fn verif_await(self) -> (r: Result<V, TryRecvError>) ensures r is Ok ==> delivered(self, r->Ok_0) { unimplemented!() }
    }
}
'''

_SLOT = r"^impl < T : CloseValue > Slot < T >$"
_GUARD_LIVE = "old(self).slot is Writable,"

ITEMS = [
    dict(kind="struct", file=S, name="FlushGuard"),
    dict(kind="struct", file=S, name="OnParentDrop"),
    dict(kind="struct", file=S, name="SlotI", attrs=["#[verifier::reject_recursive_types(T)]"]),
    dict(kind="struct", file=S, name="SlotGuard", attrs=["#[verifier::reject_recursive_types(T)]"]),
    dict(kind="struct", file=S, name="Waiting", attrs=["#[verifier::reject_recursive_types(T)]"]),
    dict(kind="struct", file=S, name="Slot", attrs=["#[verifier::reject_recursive_types(T)]"]),
    dict(kind="struct", file=S, name="LazySlot", attrs=["#[verifier::reject_recursive_types(T)]"]),
    dict(kind="fn", file=S, impl=None, name="make_slot", ret="r",
         ensures="""
            r.0.slot is Writable && r.0.slot->value == initial_value,
            oneshot::paired(r.0.slot->tx, r.1.rx),
            r.0.parent_drop_mode is Discard,
         """),
    dict(kind="raw", label="slot_inv", text=_inv_text),
    dict(kind="fn", file=S, impl=_SLOT, name="new", ret="r", label="Slot::new",
         ensures="""
            slot_inv(r.data is Some, r.rx is Some),
            r.tx is Some && r.tx->0.slot is Writable && r.tx->0.slot->value == value,
            r.rx is Some && r.data is None,
            oneshot::paired(r.tx->0.slot->tx, r.rx->0.rx),
         """),
    dict(kind="fn", file=S, impl=_SLOT, name="has_data", ret="r", label="Slot::has_data",
         closures={1: dict(params="waiting: &Waiting<T::Closed>", ret="(b: bool)")},
         ensures="self.data is Some ==> r,"),
    dict(kind="fn", file=S, impl=_SLOT, name="open", ret="r", label="Slot::open",
         ensures="""
            // C13: a slot can be opened at most once - the guard is handed out the first time only
            old(self).tx is None ==> r is None,                                                     // OBL second_open_returns_none
            final(self).tx is None,                                                                 // OBL open_takes_the_guard
            old(self).tx is Some ==> r is Some && r->0.slot == old(self).tx->0.slot && r->0.parent_drop_mode == mode,   // OBL guard_carries_the_chosen_mode
            final(self).rx == old(self).rx && final(self).data == old(self).data,
         """),
    dict(kind="fn", file=S, impl=r"^impl < T : CloseValue > LazySlot < T >$", name="open", ret="r", label="LazySlot::open",
         ensures="""
            old(self).slot is Some ==> r is None && *final(self) == *old(self),                    // OBL lazy_second_open_returns_none
            old(self).slot is None ==> r is Some && r->0.slot is Writable && r->0.slot->value == initial_value && r->0.parent_drop_mode == mode
                && final(self).slot is Some && final(self).slot->0.tx is None,                     // OBL lazy_open_once
         """),
    dict(kind="fn", file=S, impl=r"^impl < T : CloseValue > SlotGuard < T >$", name="delay_flush", label="SlotGuard::delay_flush",
         ensures="""
            final(self).parent_drop_mode == OnParentDrop::Wait(flush_guard),                        // OBL delay_flush_keeps_the_guard
            final(self).slot == old(self).slot,
         """),
    dict(kind="fn", file=S, impl=r"^impl < T : CloseValue > Drop for SlotGuard < T >$", name="drop", label="SlotGuard::drop",
         impl_header_override="impl<T: CloseValue> SlotGuard<T>",
         requires=_GUARD_LIVE,
         ensures="""
            // C13: dropping the guard sends the value as last mutated through it, closed, exactly once (the sender is consumed) ...
            oneshot::sent(old(self).slot->tx, old(self).slot->value.closed()),                      // OBL guard_drop_sends_the_closed_value
            final(self).slot is Dropped,
            // ... and its flush guard (wait mode) is still held when drop() returns: Rust releases it afterwards, so the parent entry
            // cannot be appended before the value is on its way
            final(self).parent_drop_mode == old(self).parent_drop_mode,                            // OBL flush_guard_released_only_after_the_send
         """),
    dict(kind="fn", file=S, impl=r"^impl < T > Waiting < T >$", name="take_value", ret="r", label="Waiting::take_value",
         ensures="r is Some ==> oneshot::delivered(self.rx, r->0),"),
    dict(kind="fn", file=S, impl=r"^impl < T > Waiting < T >$", name="wait_for_value", ret="r", label="Waiting::wait_for_value", only_if={"slot_inv": "exclusive"},
         sig_replace=[("async fn", "fn")], rules={"r_async": 1}, extra_rewrites=[r_async],
         ensures="r is Some ==> oneshot::delivered(self.rx, r->0),"),
    dict(kind="fn", file=S, impl=_SLOT, name="wait_for_data", ret="r", label="Slot::wait_for_data", only_if={"slot_inv": "exclusive"},
         sig_replace=[("pub async fn", "pub fn")], rules={"r_async_call": 1}, extra_rewrites=[r_async_call],
         requires="slot_inv(old(self).data is Some, old(self).rx is Some),",
         ensures="""
            // C13 (waiting for data): the value the guard sent is stored - never dropped - and what was stored before stays
            old(self).rx is None ==> *r == old(self).data,                                          // OBL wait_keeps_stored_data
            old(self).rx is Some ==> (*r is Some ==> oneshot::delivered(old(self).rx->0.rx, (*r)->0)),   // OBL wait_stores_the_delivered_value
            // the invariant close() relies on holds when the call returns
            slot_inv(*r is Some, final(self).rx is Some),                                           // OBL wait_preserves_the_slot_invariant
            final(self).data == *final(r), final(self).tx == old(self).tx,
         """),
    dict(kind="fn", file=S, impl=r"^impl < T : CloseValue > CloseValue for Slot < T >$", name="close", ret="r", label="Slot::close",
         impl_header_override="impl<T: CloseValue> Slot<T>", sig_replace=[("Self::Closed", "Option<T::Closed>")],
         requires="""
            slot_inv(self.data is Some, self.rx is Some),   // representation invariant (established by new, kept by open and wait_for_data)
            self.data is Some || self.rx is Some,           // a guard's close() that panics leaves neither (the `unreachable!` arm): outside the property
         """,
         ensures="""
            // C13: closing the parent takes the value without waiting: what was already stored, else what the channel holds right now
            self.data is Some ==> r == self.data,                                                  // OBL close_prefers_received_data
            self.data is None ==> (r is Some ==> oneshot::delivered(self.rx->0.rx, r->0)),        // OBL close_takes_only_a_delivered_value
         """),
]
POSTLUDE = ""
CANARY = dict(fn="Slot::open", replace=("final(self).tx is None,", "final(self).tx is Some,"))
