"""Unit `workersend` (C10): the producer side of WorkerSink (metrique-aggregation/src/sink/worker.rs) - send, RootSink::merge, flush.
Proved: merge / send put exactly the entry, wrapped as QueueMessage::Entry, on the channel (one send; a closed channel is ignored, the
worker is gone then); flush sends one Flush request that carries the sender half of the very channel it then waits on.
The mpsc / oneshot channels are stand-ins (a send is witnessed by `sent`; awaiting a receiver is a call, rewrite RA as in unit slot)."""

NAME = "workersend"
PROPERTIES = ["C10"]
W = "metrique-aggregation/src/sink/worker.rs"


def r_async(text):
    """RA: `rx.await` -> `rx.verif_await()` (see unit slot)"""
    n = text.count(".await")
    return text.replace(".await", ".verif_await()"), n


PRELUDE = r'''
use std::marker::PhantomData;
use std::sync::Arc;
pub mod thread { #[verifier::external_body] #[verifier::reject_recursive_types(T)] pub struct JoinHandle<T> { _p: core::marker::PhantomData<T> } }
pub trait RootSink<T> { fn merge(&self, entry: T); }
// std atomics (stand-ins): what another thread stored is not known - loads / swaps answer arbitrarily
#[verifier::external_body] pub struct AtomicBool { _p: u8 }
#[verifier::external_body] pub struct AtomicUsize { _p: u8 }
#[verifier::external_body] pub struct AtomicU64 { _p: u8 }
pub enum Ordering { Relaxed, Release, Acquire, AcqRel, SeqCst }
impl AtomicBool {
    #[verifier::external_body] pub fn new(v: bool) -> AtomicBool { unimplemented!() }
    #[verifier::external_body] pub fn load(&self, o: Ordering) -> bool { unimplemented!() }
    #[verifier::external_body] pub fn store(&self, v: bool, o: Ordering) { unimplemented!() }
    #[verifier::external_body] pub fn swap(&self, v: bool, o: Ordering) -> bool { unimplemented!() }
}
// std::sync::mpsc::Sender (stand-in): a send is witnessed; Err means the receiver (the worker) is gone
#[verifier::external_body] #[verifier::reject_recursive_types(M)] pub struct Sender<M> { _p: core::marker::PhantomData<M> }
#[verifier::external_body] #[verifier::reject_recursive_types(M)] pub struct SendError<M> { _p: core::marker::PhantomData<M> }
pub uninterp spec fn sent<M>(s: &Sender<M>, m: M) -> bool;
impl<M> Sender<M> {
    #[verifier::external_body] pub fn send(&self, m: M) -> (r: Result<(), SendError<M>>) ensures sent(self, m) { unimplemented!() }
}
pub mod oneshot {
    use vstd::prelude::*;
    #[verifier::external_body] #[verifier::reject_recursive_types(V)] pub struct Sender<V> { _p: core::marker::PhantomData<V> }
    #[verifier::external_body] #[verifier::reject_recursive_types(V)] pub struct Receiver<V> { _p: core::marker::PhantomData<V> }
    #[verifier::external_body] pub struct RecvError { _p: u8 }
    impl core::fmt::Debug for RecvError { #[verifier::external_body] fn fmt(&self, f: &mut core::fmt::Formatter<'_>) -> core::fmt::Result { unimplemented!() } }
    pub uninterp spec fn paired<V>(tx: Sender<V>, rx: Receiver<V>) -> bool;
    pub uninterp spec fn awaited<V>(rx: Receiver<V>) -> bool;
    #[verifier::external_body] pub fn channel<V>() -> (r: (Sender<V>, Receiver<V>)) ensures paired(r.0, r.1) { unimplemented!() }
    impl<V> Receiver<V> {
        // RA: `rx.await` - returns once the paired sender was used or dropped.  The worker answers every Flush request it
        // receives (unit worker), so the answer is Ok unless the worker is gone (then `unwrap` panics: loud)
        #[verifier::external_body] pub fn verif_await(self) -> (r: Result<V, RecvError>) ensures r is Ok, awaited(self) { unimplemented!() }
    }
}
'''

_WS = r"^impl < T , Inner > WorkerSink < T , Inner > where"

ITEMS = [
    dict(kind="struct", file=W, name="QueueMessage", attrs=["#[verifier::reject_recursive_types(T)]"]),
    dict(kind="struct", file=W, name="WorkerSink", attrs=["#[verifier::reject_recursive_types(T)]", "#[verifier::reject_recursive_types(Inner)]"]),
    dict(kind="fn", file=W, impl=_WS, name="send", label="WorkerSink::send",
         impl_header_override="impl<T, Inner> WorkerSink<T, Inner>",
         ensures="sent(&self.sender, QueueMessage::Entry(entry)),          // OBL send_puts_the_entry_on_the_channel"),
    dict(kind="fn", file=W, impl=_WS, name="flush", label="WorkerSink::flush", new_block=True,
         impl_header_override="impl<T, Inner> WorkerSink<T, Inner>", sig_replace=[("pub async fn", "pub fn")], rules={"r_async": 1}, extra_rewrites=[r_async],
         ensures="""
            // C10: a flush sends ONE request that carries the sender half of the channel it then waits on
            exists|tx: oneshot::Sender<()>, rx: oneshot::Receiver<()>| #[trigger] oneshot::paired(tx, rx) && sent(&self.sender, QueueMessage::Flush(tx)) && oneshot::awaited(rx),   // OBL flush_request_carries_the_awaited_channel
         """),
    dict(kind="fn", file=W, impl=r"^impl < T , Inner > RootSink < T > for WorkerSink < T , Inner > where", name="merge", label="<WorkerSink as RootSink>::merge",
         impl_header_override="impl<T, Inner> RootSink<T> for WorkerSink<T, Inner>",
         ensures="sent(&self.sender, QueueMessage::Entry(entry)),          // OBL merge_is_one_send_of_the_entry"),
]
POSTLUDE = ""
CANARY = dict(fn="WorkerSink::send", replace=("sent(&self.sender, QueueMessage::Entry(entry)),", "sent(&self.sender, QueueMessage::Entry(entry)) && false,"))
