// Appended to metrique-writer/src/sample/congress.rs under #[cfg(kani)] in a scratch copy (C12, per-group steps).
#[cfg(kani)]
mod verif_kani {
    use super::*;

    // ExpMovingAverage::add_sample from ANY state with samples <= 16: the sample counter saturates at the window
    // (so `samples + 1` can never overflow on the next step: inductive).  The float update itself
    // (decay * sample + (1 - decay) * value, two symbolic f32 products) is out of CBMC's reach and NOT claimed.
    #[kani::proof]
    fn ema_add_sample_counter_step() {
        let mut e = ExpMovingAverage { samples: kani::any(), value: kani::any() };
        kani::assume(e.samples <= EXP_MOVING_AVERAGE_WINDOW);
        kani::assume(e.value.is_finite() && e.value >= 0.0 && e.value <= 4.0e9);
        let old = e;
        let n: u32 = kani::any();
        e.add_sample(n as f32);
        assert!(e.samples >= 1 && e.samples <= EXP_MOVING_AVERAGE_WINDOW);
        assert!(e.samples == if old.samples >= 16 { 16 } else { old.samples + 1 });
    }
    // the first sample ever seen is taken as is (decay = 1)
    #[kani::proof]
    fn ema_first_sample_is_taken_as_is() {
        let mut e = ExpMovingAverage::default();
        let n: u32 = kani::any();
        let sample = n as f32;
        e.add_sample(sample);
        assert!(e.samples == 1 && e.value == sample);
    }

    // GroupState::update_and_retain: the TTL automaton, from ANY state with the invariant.
    #[kani::proof]
    fn group_state_update_and_retain_step() {
        let mut g = GroupState {
            current_observed: kani::any(),
            consecutive_no_observations: kani::any(),
            average_observed: ExpMovingAverage { samples: kani::any(), value: kani::any() },
            sample_rate: kani::any(),
            size_in_congress: kani::any(),
        };
        kani::assume(g.consecutive_no_observations <= NO_OBSERVATIONS_TTL);
        kani::assume(g.average_observed.samples <= EXP_MOVING_AVERAGE_WINDOW);
        let old = g;
        let keep = g.update_and_retain();
        assert!(g.current_observed == 0); // the interval counter is always reset
        assert!(g.sample_rate.to_bits() == old.sample_rate.to_bits()); // rates are only set by update_rates
        if old.current_observed > 0 {
            assert!(keep && g.consecutive_no_observations == 0);
            assert!(g.average_observed.samples >= 1);
        } else if old.consecutive_no_observations >= NO_OBSERVATIONS_TTL {
            assert!(!keep); // dropped exactly after TTL empty intervals
        } else {
            assert!(keep && g.consecutive_no_observations == old.consecutive_no_observations + 1);
            assert!(g.average_observed.value.to_bits() == old.average_observed.value.to_bits());
        }
        assert!(g.consecutive_no_observations <= NO_OBSERVATIONS_TTL); // invariant preserved
        kani::cover!(!keep, "drop reachable");
    }

    // record_observation counts one (overflow of the u32 interval counter is a stated precondition)
    #[kani::proof]
    fn group_state_record_observation() {
        let mut g = GroupState { current_observed: kani::any(), ..Default::default() };
        kani::assume(g.current_observed < u32::MAX);
        let old = g.current_observed;
        g.record_observation();
        assert!(g.current_observed == old + 1);
    }
}
