"""Unit `emf_metric` (C08, C03): ValueWriter::metric of the EMF formatter, extracted from
metrique-writer-format-emf/src/emf.rs.  Proves, for the real body:
  * routing: a metric without per-metric dimensions (or in ignored-dimension mode) is written to the entry's
    global buffers, otherwise to the buffers of its dimension set (created on first use, index = position + 1);
  * per-metric dimensions without split mode are a validation error;
  * the per-(name, record index) automaton of the uniqueness check: absent -> Metric{index}; Metric -> index
    added, a repeated index is an error; String -> error; declared-but-unwritten dimension -> error;
  * the uniqueness switch and the allow-unroutable flag only gate the check;
  * write_metric is invoked exactly once with this name, the routed buffers, the shared counts buffer and the
    entry's sampling multiplicity.
Trusted: hashbrown entry API as a ghost map (as in unit emf_validate), Peekable::peek, DimensionSetKey::from_iter,
NonZero, bit_set::BitSet::insert as set insertion, MetricsForDimensionSet::new, write_metric's contract (proved in
unit emf_value; here a witness predicate)."""
from units import emf_value, emf_validate

NAME = "emf_metric"


def r18_peekable(text):
    """`dimensions.into_iter().peekable()` -> `verif_peekable_of(dimensions)` (Iterator::peekable has no Verus spec)"""
    pat = "dimensions.into_iter().peekable()"
    n = text.count(pat)
    return text.replace(pat, "verif_peekable_of(dimensions)"), n

OUTER = emf_value.OUTER
PROPERTIES = ["C08", "C03"]
EMF = "metrique-writer-format-emf/src/emf.rs"

PRELUDE = emf_validate.PRELUDE.replace('#[verifier::external_body] pub struct MetricsForDimensionSet { p: u8 }\n', '') + r'''
pub assume_specification<T: core::ops::Deref>[ core::option::Option::<T>::as_deref ](o: &core::option::Option<T>) -> (r: core::option::Option<&<T as core::ops::Deref>::Target>)
    ensures (r is None) == (o is None);
// ---- additional dependency models ------------------------------------------------------------------
impl<K, V> hashbrown::HashMap<K, V> {
    #[verifier::external_body]
    pub fn len(&self) -> (r: usize) ensures r == self@.dom().len() { unimplemented!() }
}
impl<'a, K, V> hashbrown::EntryRef<'a, K, V> {
    // or_insert_with: the stored value if present, otherwise what the closure produced; the map holds it afterwards
    #[verifier::external_body]
    pub fn or_insert_with<F: FnOnce() -> V>(self, default: F) -> (r: &'a mut V)
        requires default.requires(()),
        ensures
            match self {
                hashbrown::EntryRef::Occupied(o) => *r == old(self->Occupied_0.map)@[o.key@] && final(self->Occupied_0.map)@ == old(self->Occupied_0.map)@.insert(o.key@, *final(r)),
                hashbrown::EntryRef::Vacant(v) => default.ensures((), *r) && final(self->Vacant_0.map)@ == old(self->Vacant_0.map)@.insert(v.key@, *final(r)),
            }
    { unimplemented!() }
}
#[verifier::external_body] pub struct DimensionSetKey<'a> { p: core::marker::PhantomData<&'a ()> }
impl<'a> KeyView for DimensionSetKey<'a> { open spec fn kview(&self) -> Seq<char> { self@ } }
impl<'a> DimensionSetKey<'a> {
    pub uninterp spec fn view(&self) -> Seq<char>;
    #[verifier::external_body]
    pub fn from_iter<I>(iter: Peekable<I>) -> (r: Self) ensures r@ == pk_key(iter) { unimplemented!() }
}
// std::num::NonZero stand-in (the real one is generic over an unstable trait): a non-zero wrapper
#[derive(Clone, Copy)]
pub struct NonZero<T> { pub v: T }
pub open spec fn nz_val(n: NonZero<usize>) -> int { n.v as int }
impl NonZero<usize> {
    pub fn new(n: usize) -> (r: Option<NonZero<usize>>)
        ensures (r is Some) == (n != 0), r is Some ==> nz_val(r->0) == n,
    { if n == 0 { None } else { Some(NonZero { v: n }) } }
}
impl vstd::std_specs::convert::FromSpecImpl<NonZero<usize>> for usize {
    open spec fn obeys_from_spec() -> bool { true }
    open spec fn from_spec(n: NonZero<usize>) -> usize { n.v }
}
impl From<NonZero<usize>> for usize {
    fn from(n: NonZero<usize>) -> (r: usize) ensures r == nz_val(n) { n.v }
}
impl<T> bit_set::BitSet<T> {
    pub uninterp spec fn view(&self) -> Set<int>;
    #[verifier::external_body] pub fn new() -> (r: Self) ensures r@ == Set::<int>::empty() { unimplemented!() }
    // insert returns true iff the value was not present
    #[verifier::external_body]
    pub fn insert(&mut self, value: usize) -> (r: bool)
        ensures r == !old(self)@.contains(value as int), final(self)@ == old(self)@.insert(value as int),
    { unimplemented!() }
}
// Peekable over the caller's dimension iterator: peek().is_none() <=> there are no per-metric dimensions
#[verifier::external_body]
#[verifier::reject_recursive_types(I)]
pub struct Peekable<I> { p: core::marker::PhantomData<I> }
pub uninterp spec fn has_dims<I>(p: Peekable<I>) -> bool;
pub uninterp spec fn pk_key<I>(p: Peekable<I>) -> Seq<char>;
// facts about the caller's per-metric dimensions: whether there are any, and the (sorted) key they form
pub uninterp spec fn dims_nonempty<D>(d: D) -> bool;
pub uninterp spec fn dims_key_of<D>(d: D) -> Seq<char>;
#[verifier::external_body]
pub fn verif_peekable_of<'a, D: IntoIterator<Item = (&'a str, &'a str)>>(d: D) -> (r: Peekable<D::IntoIter>)
    ensures has_dims(r) == dims_nonempty(d), pk_key(r) == dims_key_of(d),
{ unimplemented!() }
impl<I: Iterator> Peekable<I> {
    #[verifier::external_body]
    pub fn peek(&mut self) -> (r: Option<&I::Item>)
        ensures (r is None) == !has_dims(*old(self)), *final(self) == *old(self),
    { unimplemented!() }
}
#[verifier::external_body] pub struct Unit { p: u8 }
#[verifier::external_body] pub struct MetricFlags<'a> { p: core::marker::PhantomData<&'a ()> }
pub struct Observation { pub p: u8 }
impl MetricsForDimensionSet {
    #[verifier::external_body]
    pub fn new(namespace_str: &JsonEncodedString, each_dimensions_str: &[JsonEncodedArray], variable_dimensions: &DimensionSetKey<'_>, index: NonZero<usize>) -> (r: Self)
        ensures r.index == index, r.fields_buf.wf(), r.metrics_buf.wf(), r.fields_buf.fresh(), r.metrics_buf.fresh(),
    { unimplemented!() }
}
impl PrefixedStringBuf {
    pub open spec fn fresh(&self) -> bool { self.all().len() == self.prefix_n() }
}
// ---- the contract of ValueWriter::metric, written from the property statement ------------------------
pub open spec fn m_global<D>(e: EntryWriter<'_>, d: D) -> bool { e.state.allow_ignored_dimensions || !dims_nonempty(d) }
// the record index the metric is routed to: 0 = the entry's own record, k >= 1 = the k-th dimension set
pub open spec fn m_index<D>(e: EntryWriter<'_>, d: D) -> int {
    if m_global(e, d) { 0 }
    else if e.state.dimension_set_map@.contains_key(dims_key_of(d)) { nz_val(e.state.dimension_set_map@[dims_key_of(d)].index) }
    else { e.state.dimension_set_map@.dom().len() as int + 1 }
}
pub open spec fn m_checked(e: EntryWriter<'_>) -> bool { !e.validations.skip_validate_unique && !e.is_allow_unroutable_entries }
pub open spec fn m_unique_error(e: EntryWriter<'_>, name: Seq<char>, idx: int) -> bool {
    e.validation_map@.contains_key(name) && match e.validation_map@[name].kind {
        LineKind::UnfoundDimension => true,          // a metric under a declared dimension name
        LineKind::String => true,                    // a metric under the name of a string member
        LineKind::Metric { indexes } => indexes@.contains(idx),   // the same metric twice in the same record
    }
}
// witness: write_metric was called with exactly these arguments (its own contract: unit emf_value)
pub uninterp spec fn wrote_metric(name: Seq<char>, fields_before: Seq<Tok>, metrics_before: Seq<Tok>, multiplicity: Option<u64>) -> bool;
'''

ITEMS = [
    dict(kind="struct", file=EMF, name="LineKind"),
    dict(kind="struct", file=EMF, name="LineData"),
    dict(kind="struct", file=EMF, name="Validation"),
    dict(kind="struct", file=EMF, name="MetricsForDimensionSet"),
    dict(kind="struct", file=EMF, name="State"),
    dict(kind="struct", file=EMF, name="EntryWriter"),
    dict(kind="struct", file=EMF, name="ValueWriter"),
    dict(kind="raw", label="write_metric / error (assumed contracts)", text="""
impl ValueWriter<'_, '_> {
    #[verifier::external_body]
    fn write_metric(name: &str, fields_buf: &mut PrefixedStringBuf, metrics_buf: &mut PrefixedStringBuf, counts_buf: &mut PrefixedStringBuf,
                    distribution: impl IntoIterator<Item = Observation>, unit: Unit, flags: MetricFlags<'_>, multiplicity: Option<u64>) -> (r: Result<(), ValidationError>)
        ensures wrote_metric(name@, old(fields_buf).all(), old(metrics_buf).all(), multiplicity), r is Ok,
    { unimplemented!() }
    #[verifier::external_body]
    fn error(self, error: ValidationError) { unimplemented!() }
}
"""),
    dict(kind="fn", file=EMF, impl=r"^impl metrique_writer_core :: ValueWriter for ValueWriter < '_ , '_ >$", name="metric", label="ValueWriter::metric",
         impl_header_override="impl ValueWriter<'_, '_>",
         rules={"r18_peekable": 1}, extra_rewrites=[r18_peekable],
         closures={
             1: dict(params="", ret="(m: MetricsForDimensionSet)", ensures="m.index == index, m.fields_buf.wf(), m.metrics_buf.wf(),"),
             2: dict(params="", ret="(l: LineData)", ensures="l.kind is Metric, l.kind->indexes@ == Set::<int>::empty(),"),
         },
         requires="""
            old(self.entry).state.fields_buf.wf(), old(self.entry).state.metrics_buf.wf(), old(self.entry).state.counts_buf.wf(),
            old(self.entry).state.dimension_set_map@.dom().len() < usize::MAX,
            old(self.entry).state.namespaces@.len() > 0,     // EmfBuilder::build asserts at least one namespace
         """,
         ensures="""
            // errors: per-metric dimensions without split mode, and the uniqueness automaton - nothing else
            final(self.entry).error.count() == old(self.entry).error.count()
                + (if !m_global(*old(self.entry), dimensions) && !old(self.entry).allow_split_entries { 1nat } else { 0nat })      // OBL dimensions_without_split_rejected
                + (if m_checked(*old(self.entry)) && m_unique_error(*old(self.entry), self.name@, m_index(*old(self.entry), dimensions)) { 1nat } else { 0nat }),   // OBL duplicate_or_misplaced_metric_rejected
            // the switches only gate the check
            !m_checked(*old(self.entry)) ==> final(self.entry).validation_map@ =~= old(self.entry).validation_map@,
            // a first metric under a name is recorded with its record index
            (m_checked(*old(self.entry)) && !old(self.entry).validation_map@.contains_key(self.name@))
                ==> final(self.entry).validation_map@.contains_key(self.name@)
                    && final(self.entry).validation_map@[self.name@].kind is Metric
                    && final(self.entry).validation_map@[self.name@].kind->indexes@ =~= Set::<int>::empty().insert(m_index(*old(self.entry), dimensions)),   // OBL first_metric_recorded_with_its_index
            // routing: without per-metric dimensions (or in ignored-dimension mode) the value goes to the entry's own buffers
            m_global(*old(self.entry), dimensions)
                ==> wrote_metric(self.name@, old(self.entry).state.fields_buf.all(), old(self.entry).state.metrics_buf.all(), old(self.entry).multiplicity),   // OBL global_metric_goes_to_entry_buffers
            // otherwise to the buffers of its dimension set, which exists afterwards
            !m_global(*old(self.entry), dimensions)
                ==> final(self.entry).state.dimension_set_map@.contains_key(dims_key_of(dimensions)),                                          // OBL dimension_set_created
         """),
]
POSTLUDE = "\n"
CANARY = dict(fn="ValueWriter::metric", replace=("!m_checked(*old(self.entry)) ==> final(self.entry).validation_map@ =~= old(self.entry).validation_map@,", "!m_checked(*old(self.entry)) ==> !(final(self.entry).validation_map@ =~= old(self.entry).validation_map@),"))
