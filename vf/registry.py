"""Which units decide which property.  verus: [(unit, variant)], kani: [group names]."""

PROPS = {
    "C04": dict(
        verus=[("waker", {})],
        technique="Verus function contracts on the extracted real WakerTracker methods (step refinement) + inductive lemmas over histories",
        level_text="Deductive proof (Verus/z3) that the real handle_waiting_wakers / will_progress_on_drained_queue bodies refine an abstract step for all states and arguments, "
                   "that the stream is flushed before any held flush signal is released, and unbounded lemmas S1 (no early wake), L1 (bounded wake), S2 (no busy loop) over all step histories. "
                   "Cross-thread happens-before and the run-loop wiring are assumed, not proved.",
        level_note="Trusted: std mpsc try_recv (any result), tokio oneshot Sender drop = completion, derived PartialEq on DrainResult is structural, rewrite R1 (one tracing::debug! line dropped), "
                   "termination of the try_recv loop, Verus + z3.",
        explanation="WakerTracker step contract (real code, verbatim) + unbounded lemmas S1/S2/L1 over the abstract step",
        assumptions=[
            "happens-before of mpsc send -> try_recv and of oneshot Sender drop -> receiver completion (std / tokio)",
            "P1/P2 of the WakerTracker comment: status==Drained means the queue was observed empty since the previous call; "
            "the capacity callback returns an upper bound of the entries queued when the signals were collected (run loop wiring, read not proved)",
            "termination of the `while let Ok(..) = try_recv()` loop (exec_allows_no_decreases_clause): not proved",
        ],
        unreached=["Inner::flush_async (send, unpark, future)", "Receiver::run wiring of drain -> handle_waiting_wakers -> park"],
    ),
    "C02": dict(
        verus=[("emf_value", {})],
        technique="Verus function contracts on the extracted real write_observation / write_metric_value / write_metric over a token view of the buffers",
        level_text="Deductive proof (Verus/z3), for all observation lists of any length with NaN/inf/zero-occurrence entries at any position and any multiplicity, that the metric-value fragment "
                   "appended to the EMF record is `,\"name\":` followed by one numeral or by aligned, non-empty, properly comma-separated Values/Counts arrays, that a skipped metric leaves no trace "
                   "(truncate restores the buffer), and that the declaration list gets its comma iff non-empty. Document assembly in finish() is not reached.",
        level_note="Trusted: token view of PrefixedStringBuf (6 one-line String wrappers), write_float appends one numeral of a finite double (dtoa), json_string emits one JSON string token (serde_json), "
                   "clamp_to_finite contract (proved separately by Kani when the kani group runs), rewrites R1/R2/R3/R6, termination of the observation loop, Verus + z3.",
        explanation="metric-value fragment of the EMF formatter against a token grammar",
        assumptions=[
            "PrefixedStringBuf methods behave as their token-level specs (units/emf_value.py prelude)",
            "serde_json string escaping, itoa and dtoa produce valid JSON tokens",
            "finish() concatenates the verified fragments with fixed literals (not verified: hashbrown/SmallVec iteration is outside both engines)",
        ],
        unreached=["EntryWriter::finish (document assembly, newline framing)", "write_all_vectored (see C16)", "json_string.rs (serde_json)"],
    ),
    "C08": dict(
        verus=[("emf_cfg", {"profile_debug": True}), ("emf_cfg", {"profile_debug": False})],
        technique="Verus function contracts on the extracted real Emf::builder / all_validations / no_validations / skip_all_validations, once per build profile",
        level_text="Deductive proof (Verus/z3) that every documented way of enabling validations really enables all three validation switches in BOTH build profiles "
                   "(cfg(debug_assertions) resolved mechanically per profile), that no_validations disables all, and that skip_all_validations is monotone and touches nothing else.",
        level_note="Trusted: EmfBuilder::build forwards the switches unchanged (assumed contract, checked syntactically), derive(Default) on three bools is all-false, rewrites R4/R6/R7/R8, Verus + z3. "
                   "The record-level invariant 'no two members share a name' (hashbrown code in ValueWriter::metric) is not reached.",
        explanation="validation switches for both build profiles",
        assumptions=["EmfBuilder::build forwards `validation` unchanged", "derive(Default) for Validation is all-false"],
        unreached=["ValueWriter::metric duplicate / dimension checks (hashbrown entry_ref, peekable)", "EntryDimensions config checks", "missing-dimension sweep in finish()"],
    ),
}
