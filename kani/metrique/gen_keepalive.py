"""Generator for the Kani group keepalive (C06, BOUNDED): one harness per history of the keep-alive protocol on ONE thread.
A history is a sequence of at most MAXLEN (= 5: one parent and up to two guards of either kind) operations:
  NG new flush guard, DG0 / DG1 drop flush guard 0 / 1, NF new force-flush guard, DF0 / DF1 drop force guard 0 / 1, DP drop the parent
(guards can only be created while the parent is alive; every history ends with everything dropped).  After EVERY step the harness
checks, on the real Parent / Guard / DropAll code:  the inner value has been dropped  <=>  the parent has been dropped AND (no flush
guard is alive OR some force-flush guard has been dropped - at any earlier time);  and it is dropped at most once."""
MAXLEN = 5
OPS = ["NG", "DG0", "DG1", "NF", "DF0", "DF1", "DP"]


def histories():
    out = []

    def rec(seq, parent, guards, forces):
        # guards / forces: list of states 'a' alive, 'd' dropped
        alive = parent or "a" in guards or "a" in forces
        if not alive and seq:
            out.append(list(seq))
            return
        if len(seq) >= MAXLEN:
            return
        remaining = (1 if parent else 0) + guards.count("a") + forces.count("a")
        if len(seq) + remaining > MAXLEN:
            return
        if parent and len(guards) < 2:
            rec(seq + [0], parent, guards + ["a"], forces)
        for k in range(len(guards)):
            if guards[k] == "a":
                g = list(guards); g[k] = "d"
                rec(seq + [1 + k], parent, g, forces)
        if parent and len(forces) < 2:
            rec(seq + [3], parent, guards, forces + ["a"])
        for k in range(len(forces)):
            if forces[k] == "a":
                f = list(forces); f[k] = "d"
                rec(seq + [4 + k], parent, guards, f)
        if parent:
            rec(seq + [6], False, guards, forces)
    rec([], True, [], [])
    # symmetric duplicates (guard 0 / guard 1 are created in order, so no relabelling symmetry remains)
    return out


def name_of(h):
    return "h_" + "_".join(OPS[o].lower() for o in h)


QUICK = {"h_nf_df0_ng_dp_dg0", "h_nf_ng_dp_df0_dg0", "h_ng_dp_dg0", "h_ng_nf_df0_dg0_dp"}


def generate(text, rel):
    hs = histories()
    arms = []
    for h in hs:
        arms.append("    #[kani::proof] #[kani::unwind(%d)] fn %s() { run(&[%s]) }" % (len(h) + 2, name_of(h), ", ".join(str(o) for o in h)))
    return '''
// GENERATED on every run by kani/metrique/gen_keepalive.py: %d single-thread histories of the keep-alive protocol (see the generator's docstring)
#[cfg(kani)]
mod verif_kani_hist {
    use super::*;
    static mut DROPS: u32 = 0;
    struct Probe;
    impl Drop for Probe { fn drop(&mut self) { unsafe { DROPS += 1; } } }

    fn run(script: &[u8]) {
        unsafe { DROPS = 0; }
        let mut parent = Some(Parent::new(Probe));
        let mut guards: [Option<Guard>; 2] = [None, None];
        let mut forces: [Option<DropAll>; 2] = [None, None];
        let (mut ng, mut nf) = (0usize, 0usize);
        let mut force_dropped = false;
        let mut i = 0;
        while i < script.len() {
            match script[i] {
                0 => { guards[ng] = Some(parent.as_ref().unwrap().new_guard()); ng += 1; }
                1 => drop(guards[0].take()),
                2 => drop(guards[1].take()),
                3 => { forces[nf] = Some(parent.as_ref().unwrap().force_drop_guard()); nf += 1; }
                4 => { drop(forces[0].take()); force_dropped = true; }
                5 => { drop(forces[1].take()); force_dropped = true; }
                _ => drop(parent.take()),
            }
            let guards_alive = guards[0].is_some() || guards[1].is_some();
            let expected = parent.is_none() && (!guards_alive || force_dropped);
            let drops = unsafe { DROPS };
            assert!(drops <= 1);
            assert!((drops == 1) == expected);
            i += 1;
        }
        assert!(unsafe { DROPS } == 1);
    }
%s
}
''' % (len(hs), "\n".join(arms))


if __name__ == "__main__":
    hs = histories()
    print(len(hs))
    print([name_of(h) for h in hs if name_of(h) in QUICK])
