// Native replay search for unit wrappers2 (C15): do the value-decorating entry wrappers preserve the wrapped entry's sample group?
use metrique_writer_core::{Entry, EntryWriter, MetricFlags};
use metrique_writer_core::value::{FlagConstructor, ForceFlag, WithDimensions};
use std::borrow::Cow;

struct E;
impl Entry for E {
    fn write<'a>(&'a self, w: &mut impl EntryWriter<'a>) { w.value("A", &1u64); }
    fn sample_group(&self) -> impl Iterator<Item = (Cow<'static, str>, Cow<'static, str>)> {
        [(Cow::Borrowed("operation"), Cow::Borrowed("Get"))].into_iter()
    }
}
struct F;
impl FlagConstructor for F { fn construct() -> MetricFlags<'static> { MetricFlags::empty() } }

#[test]
fn verif_replay_search() {
    let plain: Vec<_> = E.sample_group().collect();
    let forced: Vec<_> = ForceFlag::<E, F>::from(E).sample_group().collect();
    if plain != forced {
        println!("FAILING_INPUT: ForceFlag::<E, F>::from(entry) where entry.sample_group() = [(\"operation\", \"Get\")]");
        println!("FAILURE: wrapper.sample_group() = {:?}, entry.sample_group() = {:?}", forced, plain);
        panic!("postcondition violated");
    }
    let w: WithDimensions<E, 1> = WithDimensions::new(E, "k", "v");
    let got: Vec<_> = w.sample_group().collect();
    if plain != got {
        println!("FAILING_INPUT: WithDimensions::<E, 1>::new(entry, \"k\", \"v\") where entry.sample_group() = [(\"operation\", \"Get\")]");
        println!("FAILURE: wrapper.sample_group() = {:?}, entry.sample_group() = {:?}", got, plain);
        panic!("postcondition violated");
    }
    println!("SEARCHED: ForceFlag and WithDimensions entry wrappers around an entry with a one-element sample group: group preserved");
}
