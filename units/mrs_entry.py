"""Unit `mrs_entry` (C20): how one readout of the metrics.rs bridge is written - <MetricAccumulatorEntry as Entry>::write
(metrique-metricsrs/src/accumulator.rs) and the MultiObservation value declared inside it.

Proved: the entry writes its timestamp (if it has one), the split-entries configuration, then every counter, every gauge and every
histogram exactly once, in that order - each under its registered name (V::key_name), with its labels as dimensions (V::key_labels, in
order), its described unit (the unit map's entry for that name, else Unit::None), no flags, and the observations
[Unsigned(count)] / [Floating(value)] / one Repeated per bucket (the bucket conversion itself: unit mrs_hist).

Exact-text rewrites (container plumbing without a Verus counterpart; each keeps the content):
  E1  self.value.clone()                 -> verif_clone_iterable(&self.value)        same elements (Clone of an iterable)
  E2  self.dimensions.iter().cloned()    -> verif_copied(self.dimensions.as_slice()) (B1 of unit boxed)
  E3  &const { metrique_writer_core::config::AllowSplitEntries::new() } -> verif_allow_split_entries()   the constant config object
  E4  &metrique_writer_core::Unit::None  -> verif_unit_none()
  E5  buckets.iter().map(               -> verif_bucket_iter(buckets).map(           slice iterator by reference"""
from units import boxed as _b

NAME = "mrs_entry"
PROPERTIES = ["C20"]
SCREEN_FLOAT_CASTS = True
ACC = "metrique-metricsrs/src/accumulator.rs"


def _stmt(name, old, new, doc):
    def f(text):
        n = text.count(old)
        return text.replace(old, new), n
    f.__name__ = name
    f.__doc__ = doc
    return f


e1 = _stmt("e1_clone_iterable", "self.value.clone()", "verif_clone_iterable(&self.value)", "E1")
e2 = _stmt("e2_dims_cloned", "self.dimensions.iter().cloned()", "verif_copied(self.dimensions.as_slice())", "E2")

e3 = _stmt("e3_const_config", "&const { metrique_writer_core::config::AllowSplitEntries::new() }", "verif_allow_split_entries()", "E3")
e4 = _stmt("e4_unit_none", "&metrique_writer_core::Unit::None", "verif_unit_none()", "E4")
e5 = _stmt("e5_bucket_iter", "buckets.iter().map(", "verif_bucket_iter(buckets).map(", "E5")
from units.mrs_hist import rf_u32_as_f64

_P = _b.PRELUDE
_BASE = _P[:_P.index("pub trait DynEntryWriter<'a> {")] + _P[_P.index("// a Cow<str> converts into itself"):_P.index("// ---- entries ---")]
_OBS = "#[verifier::external_body] #[derive(Clone, Copy)] pub struct Observation { _p: u8 }\n"
assert _OBS in _BASE
_BASE = _BASE.replace(_OBS, "")

PRELUDE = _BASE + r'''
pub mod metrique_writer_core { pub use super::{Unit, Value, ValueWriter}; }
impl<'a> MetricFlags<'a> {
    #[verifier::external_body] pub fn empty() -> (r: MetricFlags<'static>) ensures flag_id(r) == 0 { unimplemented!() }
}
use vstd::std_specs::ops::MulSpec;
pub mod float_axioms {
    use vstd::prelude::*;
    use vstd::std_specs::ops::MulSpec;
    pub broadcast axiom fn f64_mul_req(a: f64, b: f64) ensures #[trigger] a.mul_req(b);
    pub broadcast axiom fn f64_mul_obeys(a: f64, b: f64) ensures <f64 as MulSpec<f64>>::obeys_mul_spec() || #[trigger] a.mul_spec(b) != a.mul_spec(b);
}
pub mod mul_bounds {
    use vstd::prelude::*;
    // nonlinear fact z3 does not find unprompted: the product of two 32-bit quantities fits 64 bits
    pub broadcast proof fn lemma_mul_u32_fits_u64(x: int, y: int)
        requires 0 <= x <= u32::MAX, 0 <= y <= u32::MAX,
        ensures 0 <= #[trigger] (x * y) <= 0xFFFF_FFFE_0000_0001,
    { assert(0 <= x * y <= 0xFFFF_FFFE_0000_0001) by(nonlinear_arith) requires 0 <= x <= 0xFFFF_FFFF, 0 <= y <= 0xFFFF_FFFF; }
}
broadcast use {float_axioms::f64_mul_req, float_axioms::f64_mul_obeys, mul_bounds::lemma_mul_u32_fits_u64};
pub uninterp spec fn u32_as_f64(x: u32) -> f64;
#[verifier::external_body]
pub fn verif_u32_as_f64(x: u32) -> (r: f64) ensures r == u32_as_f64(x) { unimplemented!() }
pub mod metrique_timesource {
    use vstd::prelude::*;
    #[verifier::external_body] pub struct SystemTime { _p: u8 }
    impl SystemTime {
        pub uninterp spec fn std(&self) -> super::SystemTime;
        #[verifier::external_body] pub fn as_std(&self) -> (r: super::SystemTime) ensures r == self.std() { unimplemented!() }
    }
}
// the metrics.rs version shim: what a key's name and labels are (assumed; the 0.24 impl forwards to metrics::Key)
pub trait MetricsRsVersion {
    type Key;
    spec fn name_of(k: &Self::Key) -> Seq<char>;
    spec fn labels_of(k: &Self::Key) -> Seq<(Seq<char>, Seq<char>)>;
    // (the second clause: a &str converted into the writer's Cow<str> name keeps its text)
    fn key_name(name: &Self::Key) -> (r: &str) ensures r@ == Self::name_of(name), cow_text(r.into_spec()) == Self::name_of(name);
    fn key_labels(key: &Self::Key) -> (r: Vec<(&str, &str)>) ensures dims_view(r@) == Self::labels_of(key);
}
impl<'a> Into<Cow<'a, str>> for &'a str {
    uninterp spec fn into_spec(self) -> Cow<'a, str>;
    #[verifier::external_body] fn into(self) -> (r: Cow<'a, str>) { unimplemented!() }
}
// std::collections::HashMap<String, Unit> (the described units): lookup by text
#[verifier::external_body] #[verifier::reject_recursive_types(K)] #[verifier::reject_recursive_types(V)] pub struct HashMap<K, V> { _p: core::marker::PhantomData<(K, V)> }
impl HashMap<String, Unit> {
    pub uninterp spec fn unit_of(&self, name: Seq<char>) -> Option<Unit>;
    #[verifier::external_body]
    pub fn get(&self, k: &str) -> (r: Option<&Unit>) ensures (r is Some) == (self.unit_of(k@) is Some), r is Some ==> *r->0 == self.unit_of(k@)->0 { unimplemented!() }
}
pub uninterp spec fn unit_none() -> Unit;
// E4: &Unit::None
#[verifier::external_body] pub fn verif_unit_none() -> (r: &'static Unit) ensures *r == unit_none() { unimplemented!() }
// E3: the constant AllowSplitEntries configuration object
pub uninterp spec fn split_cfg() -> int;
#[verifier::external_body] pub fn verif_allow_split_entries() -> (r: &'static dyn EntryConfig) ensures config_id(r) == split_cfg() { unimplemented!() }
// ---- iteration (std restated over element sequences) ------------------------------------------------------------------
pub fn verif_iter<I: IntoIterator>(i: I) -> (r: I::IntoIter) ensures r.rest() == i.elems() { i.into_iter() }
#[verifier::external_body] #[verifier::reject_recursive_types(T)] pub struct VerifSeqIter<T> { _p: core::marker::PhantomData<T> }
impl<T> Clone for VerifSeqIter<T> { #[verifier::external_body] fn clone(&self) -> (r: Self) { unimplemented!() } }
impl<T> VerifSeqIter<T> { pub uninterp spec fn left(&self) -> Seq<T>; }
impl<T> Iterator for VerifSeqIter<T> {
    type Item = T;
    open spec fn rest(&self) -> Seq<T> { self.left() }
    #[verifier::external_body] fn next(&mut self) -> (r: Option<T>) { unimplemented!() }
    #[verifier::external_body] fn size_hint(&self) -> (r: (usize, Option<usize>)) { unimplemented!() }
    #[verifier::external_body] fn collect<B: FromIterator<T>>(self) -> (r: B) { unimplemented!() }
}
impl<T> IntoIterator for VerifSeqIter<T> {
    type Item = T;
    type IntoIter = VerifSeqIter<T>;
    open spec fn elems(&self) -> Seq<T> { self.left() }
    fn into_iter(self) -> (r: VerifSeqIter<T>) { self }
}
impl<T> VerifSeqIter<T> {
    // Iterator::map with the closure's contract
    #[verifier::external_body]
    pub fn map<B, F: FnMut(T) -> B>(self, f: F) -> (r: VerifSeqIter<B>)
        requires forall|x: T| #[trigger] f.requires((x,)),
        ensures r.left().len() == self.left().len(),
                forall|i: int| 0 <= i < self.left().len() ==> f.ensures((self.left()[i],), #[trigger] r.left()[i]),
    { unimplemented!() }
}
// `for x in &vec`: yields a reference to every element, in order
impl<'s, T> IntoIterator for &'s Vec<T> {
    type Item = &'s T;
    type IntoIter = VerifSeqIter<&'s T>;
    open spec fn elems(&self) -> Seq<&'s T> { Seq::new(self@.len(), |i: int| &self@[i]) }
    #[verifier::external_body] fn into_iter(self) -> (r: VerifSeqIter<&'s T>) { unimplemented!() }
}
// [T; N] by value
impl<T, const N: usize> IntoIterator for [T; N] {
    type Item = T;
    type IntoIter = VerifSeqIter<T>;
    open spec fn elems(&self) -> Seq<T> { self@ }
    #[verifier::external_body] fn into_iter(self) -> (r: VerifSeqIter<T>) { unimplemented!() }
}
// E5: buckets.iter()
#[verifier::external_body]
pub fn verif_bucket_iter<'s>(b: &'s Vec<Bucket>) -> (r: VerifSeqIter<&'s Bucket>) ensures r.left() == Seq::new(b@.len(), |i: int| &b@[i]) { unimplemented!() }

// ---- C20: what one readout writes -------------------------------------------------------------------------------------
pub open spec fn unit_for(units: HashMap<String, Unit>, name: Seq<char>) -> Unit {
    if units.unit_of(name) is Some { units.unit_of(name)->0 } else { unit_none() }
}
pub open spec fn bucket_obs(b: Bucket) -> Observation {
    Observation::Repeated { total: u32_as_f64(b.value).mul_spec(u32_as_f64(b.count)), occurrences: b.count as u64 }
}
pub open spec fn metric_item<V: MetricsRsVersion + ?Sized>(k: &V::Key, obs: Seq<Observation>, units: HashMap<String, Unit>) -> Item {
    Item::Value(V::name_of(k), mk_metric(obs, unit_for(units, V::name_of(k)), V::labels_of(k), 0))
}
pub open spec fn counter_items<V: MetricsRsVersion + ?Sized>(s: Seq<(V::Key, u64)>, units: HashMap<String, Unit>) -> Seq<Item> {
    s.map_values(|e: (V::Key, u64)| metric_item::<V>(&e.0, seq![Observation::Unsigned(e.1)], units))
}
pub open spec fn gauge_items<V: MetricsRsVersion + ?Sized>(s: Seq<(V::Key, f64)>, units: HashMap<String, Unit>) -> Seq<Item> {
    s.map_values(|e: (V::Key, f64)| metric_item::<V>(&e.0, seq![Observation::Floating(e.1)], units))
}
pub open spec fn histogram_items<V: MetricsRsVersion + ?Sized>(s: Seq<(V::Key, Vec<Bucket>)>, units: HashMap<String, Unit>) -> Seq<Item> {
    s.map_values(|e: (V::Key, Vec<Bucket>)| metric_item::<V>(&e.0, e.1@.map_values(|b: Bucket| bucket_obs(b)), units))
}
pub open spec fn head_items(ts: Option<metrique_timesource::SystemTime>) -> Seq<Item> {
    (if ts is Some { seq![Item::Timestamp(ts->0.std())] } else { Seq::<Item>::empty() }).push(Item::Config(split_cfg()))
}
// E1: Clone of an iterable yields the same elements (assumed for the two types used: an array of observations, a mapped slice iterator)
#[verifier::external_body]
pub fn verif_clone_iterable<T: IntoIterator>(t: &T) -> (r: T) ensures r.elems() == t.elems() { unimplemented!() }
'''

_IN = (r"^impl < V : MetricsRsVersion \+ \? Sized > Entry for MetricAccumulatorEntry < V >$", "write")
_MV = r"^impl < T > metrique_writer_core :: Value for MultiObservation < '_ , T > where"

ITEMS = [
    dict(kind="struct", file="metrique-writer-core/src/value/mod.rs", name="Observation", attrs=["#[derive(Clone, Copy)]"]),
    dict(kind="struct", file=ACC, name="MultiObservation", inside_fn=_IN, attrs=["#[verifier::reject_recursive_types(T)]"]),
    dict(kind="fn", file=ACC, inside_fn=_IN, impl=_MV, name="write", label="MultiObservation::write", impl_trait_args=True,
         rules={"R14": 1, "e1_clone_iterable": 1, "e2_dims_cloned": 1}, extra_rewrites=[e1, e2],
         sig_replace=[("metrique_writer_core::ValueWriter", "ValueWriter")],
         impl_extra="    // C20: one metric call with exactly these observations, this unit, these dimensions in order, and no flags\n"
                    "    open spec fn call(&self) -> VCall { mk_metric(self.value.elems(), self.unit, dims_view(self.dimensions@), 0) }\n"),
    dict(kind="struct", file="metrique-metricsrs/src/metrics_histogram.rs", name="Bucket", attrs=["#[derive(Clone, Copy)]"]),
    dict(kind="struct", file=ACC, name="MetricAccumulatorEntry", attrs=["#[verifier::reject_recursive_types(V)]"]),
    dict(kind="fn", file=ACC, impl=_IN[0], name="write", label="MetricAccumulatorEntry::write", impl_trait_args=True, desugar_for=True, nested_items_dropped=True,
         impl_header_override="impl<V: MetricsRsVersion + ?Sized> MetricAccumulatorEntry<V>",
         attrs=["#[verifier::exec_allows_no_decreases_clause]"],
         rules={"R14": 1, "e3_const_config": 1, "e4_unit_none": 3, "e5_bucket_iter": 1, "rf_u32_as_f64": 2},
         extra_rewrites=[e3, e4, e5, rf_u32_as_f64], unpinned=["rf_u32_as_f64"],
         closures={1: dict(params="bucket: &Bucket", ret="(o: Observation)", ensures="o == bucket_obs(*bucket),")},
         ensures="""
            // C20: timestamp (if any), the split-entries configuration, then every counter, gauge and histogram exactly once, in order,
            // each under its registered name with its labels as dimensions and its described unit
            final(writer).log() == old(writer).log() + head_items(self.timestamp)
                + counter_items::<V>(self.counters@, self.units) + gauge_items::<V>(self.gauges@, self.units)
                + histogram_items::<V>(self.histograms@, self.units),                                       // OBL readout_written_once_with_name_labels_unit
         """,
         loops={1: """
            invariant
                0 <= verif_n1 <= self.counters@.len(),
                verif_it0.rest() == Seq::new(self.counters@.len(), |i: int| &self.counters@[i]).skip(verif_n1 as int),
                writer.log() == verif_log0 + head_items(self.timestamp) + counter_items::<V>(self.counters@.take(verif_n1 as int), self.units),
            ensures
                verif_n1 == self.counters@.len(),
         """, 2: """
            invariant
                0 <= verif_n2 <= self.gauges@.len(),
                verif_it1.rest() == Seq::new(self.gauges@.len(), |i: int| &self.gauges@[i]).skip(verif_n2 as int),
                writer.log() == verif_log0 + head_items(self.timestamp) + counter_items::<V>(self.counters@, self.units) + gauge_items::<V>(self.gauges@.take(verif_n2 as int), self.units),
            ensures
                verif_n2 == self.gauges@.len(),
         """, 3: """
            invariant
                0 <= verif_n3 <= self.histograms@.len(),
                verif_it2.rest() == Seq::new(self.histograms@.len(), |i: int| &self.histograms@[i]).skip(verif_n3 as int),
                writer.log() == verif_log0 + head_items(self.timestamp) + counter_items::<V>(self.counters@, self.units) + gauge_items::<V>(self.gauges@, self.units) + histogram_items::<V>(self.histograms@.take(verif_n3 as int), self.units),
            ensures
                verif_n3 == self.histograms@.len(),
         """},
         proofs=[
             ("start", None, "let ghost verif_log0 = writer.log(); let ghost mut verif_n1: nat = 0; let ghost mut verif_n2: nat = 0; let ghost mut verif_n3: nat = 0;"),
             ("before", "{ let mut verif_it0 = verif_iter (", "proof { assert(self.counters@.take(0) =~= Seq::<(V::Key, u64)>::empty()); }"),
             ("before", "{ let mut verif_it1 = verif_iter (", "proof { assert(self.counters@.take(verif_n1 as int) =~= self.counters@); assert(self.gauges@.take(0) =~= Seq::<(V::Key, f64)>::empty()); }"),
             ("before", "{ let mut verif_it2 = verif_iter (", "proof { assert(self.gauges@.take(verif_n2 as int) =~= self.gauges@); assert(self.histograms@.take(0) =~= Seq::<(V::Key, Vec<Bucket>)>::empty()); }"),
             ("after", "let observations = ___ ;", "let ghost verif_obs3 = observations.elems();"),
             ("after", "writer . value ( ___ ) ;", """proof {
                    let e = self.counters@[verif_n1 as int];
                    assert(*key == e.0);
                    assert([Observation::Unsigned(*value)]@ =~= seq![Observation::Unsigned(e.1)]);
                    assert(*unit == unit_for(self.units, V::name_of(key)));
                    assert(self.counters@.take(verif_n1 as int + 1) =~= self.counters@.take(verif_n1 as int).push(e));
                    assert(counter_items::<V>(self.counters@.take(verif_n1 as int + 1), self.units) =~= counter_items::<V>(self.counters@.take(verif_n1 as int), self.units).push(metric_item::<V>(&e.0, seq![Observation::Unsigned(e.1)], self.units)));
                    verif_n1 = verif_n1 + 1;
                 }""", 0),
             ("after", "writer . value ( ___ ) ;", """proof {
                    let e = self.gauges@[verif_n2 as int];
                    assert(*key == e.0);
                    assert([Observation::Floating(*value)]@ =~= seq![Observation::Floating(e.1)]);
                    assert(*unit == unit_for(self.units, V::name_of(key)));
                    assert(self.gauges@.take(verif_n2 as int + 1) =~= self.gauges@.take(verif_n2 as int).push(e));
                    assert(gauge_items::<V>(self.gauges@.take(verif_n2 as int + 1), self.units) =~= gauge_items::<V>(self.gauges@.take(verif_n2 as int), self.units).push(metric_item::<V>(&e.0, seq![Observation::Floating(e.1)], self.units)));
                    verif_n2 = verif_n2 + 1;
                 }""", 1),
             ("after", "writer . value ( ___ ) ;", """proof {
                    let e = self.histograms@[verif_n3 as int];
                    assert(*key == e.0);
                    assert(*buckets == e.1); assert(verif_obs3 =~= e.1@.map_values(|b: Bucket| bucket_obs(b)));
                    assert(*unit == unit_for(self.units, V::name_of(key)));
                    assert(self.histograms@.take(verif_n3 as int + 1) =~= self.histograms@.take(verif_n3 as int).push(e));
                    assert(histogram_items::<V>(self.histograms@.take(verif_n3 as int + 1), self.units) =~= histogram_items::<V>(self.histograms@.take(verif_n3 as int), self.units).push(metric_item::<V>(&e.0, e.1@.map_values(|b: Bucket| bucket_obs(b)), self.units)));
                    verif_n3 = verif_n3 + 1;
                 }""", 2),
             ("end", None, "proof { assert(self.histograms@.take(verif_n3 as int) =~= self.histograms@); }"),
         ]),
]
POSTLUDE = ""
CANARY = dict(fn="MetricAccumulatorEntry::write", replace=("+ histogram_items::<V>(self.histograms@, self.units),", "+ histogram_items::<V>(self.histograms@.drop_last(), self.units),"))
