"""Unit `sinks` (C16): neither validation nor I/O errors stop a sink.
Extracted: SinkState::append / flush (metrique-writer/src/sink/immediate_flush.rs) and the
EntryIoStream impl of Tee (metrique-writer/src/stream.rs)."""
from units import bgq

NAME = "sinks"
PROPERTIES = ["C16"]
IMM = "metrique-writer/src/sink/immediate_flush.rs"
STREAM = "metrique-writer/src/stream.rs"

_P = bgq.PRELUDE
_P = _P.replace("fn next<E: Entry>(&mut self, entry: &E) -> (r: Result<(), IoStreamError>)",
                "fn next<VerifI0: Entry>(&mut self, entry: &VerifI0) -> (r: Result<(), IoStreamError>)")
assert "VerifI0" in _P
PRELUDE = _P.replace("pub mod io { pub use std::io::ErrorKind; pub type Error = super::IoError; }", "pub mod io { pub use std::io::ErrorKind; pub type Error = super::IoError; pub type Result<T> = core::result::Result<T, super::IoError>; }") + r'''
pub mod io2 { }
impl Instant {
    #[verifier::external_body]
    pub fn elapsed(&self) -> Duration { unimplemented!() }
}
impl Duration {
    #[verifier::external_body]
    pub fn as_millis(&self) -> u128 { unimplemented!() }
}
pub assume_specification<T, E, U>[ core::result::Result::<T, E>::and ](a: core::result::Result<T, E>, b: core::result::Result<U, E>) -> (r: core::result::Result<U, E>)
    ensures r == (match a { Ok(_) => b, Err(e) => Err::<U, E>(e) });
'''

ITEMS = [
    dict(kind="struct", file=IMM, name="SinkState", attrs=["#[verifier::reject_recursive_types(S)]"]),
    dict(kind="fn", file=IMM, impl=r"^impl < S : EntryIoStream > SinkState < S >$", name="flush", label="SinkState::flush",
         rules={"R1": 1},
         ensures="""
            final(self).stream.ops() == old(self).stream.ops().push(Op::Flush),   // exactly one flush, even if it fails
         """),
    dict(kind="fn", file=IMM, impl=r"^impl < S : EntryIoStream > SinkState < S >$", name="append", label="SinkState::append",
         rules={"R1": 2},
         ensures="""
            // whatever the stream answers for this entry (Ok / Validation / Io): it was handed over exactly once
            // and the stream was flushed right after it; the sink stays usable (no panic, nothing retried)
            final(self).stream.ops() == old(self).stream.ops().push(Op::Next(entry.id())).push(Op::Flush),   // OBL immediate_sink_next_then_flush
         """),
    dict(kind="struct", file=STREAM, name="Tee", attrs=["#[verifier::reject_recursive_types(S1)]", "#[verifier::reject_recursive_types(S2)]"]),
    dict(kind="fn", file=STREAM, impl=r"^impl < S1 : EntryIoStream , S2 : EntryIoStream > EntryIoStream for Tee < S1 , S2 >$", name="next", label="Tee::next",
         impl_trait_args=True, rules={"R14": 1},
         impl_extra="""    // the log of a tee is the log of its first stream; the extra postconditions below say the second one
    // receives exactly the same
    open spec fn ops(&self) -> Seq<Op> { self.s1.ops() }
    #[verifier::external_body]
    fn report_error(&mut self, message: &str) -> (r: Result<(), IoStreamError>) { unimplemented!() }
""",
         ensures="""
            // both streams receive the entry exactly once, whatever the first one returned (eager `.and(..)`)
            final(self).s2.ops() == old(self).s2.ops().push(Op::Next(entry.id())),   // OBL tee_second_stream_gets_entry
         """),
    dict(kind="fn", file=STREAM, impl=r"^impl < S1 : EntryIoStream , S2 : EntryIoStream > EntryIoStream for Tee < S1 , S2 >$", name="flush", label="Tee::flush",
         ensures="""
            final(self).s2.ops() == old(self).s2.ops().push(Op::Flush),               // OBL tee_second_stream_flushed
         """),
]
POSTLUDE = "\n"
CANARY = dict(fn="SinkState::flush", replace=("old(self).stream.ops().push(Op::Flush)", "old(self).stream.ops()"))
