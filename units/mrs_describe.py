"""Unit `mrs_describe` (C20): how a metric's described unit gets into the bridge's unit map - describe_counter / describe_gauge /
describe_histogram of `impl Recorder for MetricRecorder<dyn metrics_024::Recorder>` (metrique-metricsrs/src/accumulator.rs, mod impls_024).
Proved: each describe call registers the mapped unit under the key's name - it waits for the map's write lock, it never skips the
registration.  (That a readout then writes this unit: unit mrs_entry.  The mapping metrics-rs unit -> metrique unit: unit.rs, not verified.)"""

NAME = "mrs_describe"
PROPERTIES = ["C20"]
ACC = "metrique-metricsrs/src/accumulator.rs"

def d1_to_string(text):
    """D1: PLACE.to_string() on a &str -> verif_to_string(PLACE): the String has the same text (ToString's blanket impl has no Verus spec)"""
    import re
    pat = r"\b([a-z_][a-z_0-9]*(?:\.[a-z_][a-z_0-9]*\(\))*)\.to_string\(\)"
    n = len(re.findall(pat, text))
    return re.sub(pat, r"verif_to_string(\1)", text), n


PRELUDE = r'''
use std::sync::Arc;
pub mod metrique_writer_core { #[verifier::external_body] #[derive(Clone, Copy)] pub struct Unit { _p: u8 } }
pub mod metrics_024 {
    use vstd::prelude::*;
    #[verifier::external_body] pub struct KeyName { _p: u8 }
    impl KeyName {
        pub uninterp spec fn text(&self) -> Seq<char>;
        #[verifier::external_body] pub fn as_str(&self) -> (r: &str) ensures r@ == self.text() { unimplemented!() }
    }
    #[verifier::external_body] pub struct Unit { _p: u8 }
    #[verifier::external_body] pub struct SharedString { _p: u8 }
    pub trait Recorder {}
}
// unit.rs (not verified): the mapping of a metrics-rs unit to a metrique unit
pub uninterp spec fn unit_map(u: Option<metrics_024::Unit>) -> metrique_writer_core::Unit;
#[verifier::external_body]
pub fn metrics_024_unit_to_metrique_unit(unit: Option<metrics_024::Unit>) -> (r: metrique_writer_core::Unit) ensures r == unit_map(unit) { unimplemented!() }
// std::sync::RwLock<HashMap<String, Unit>> (stand-in): `write()` waits for the lock (Ok: no poisoning); `try_write()` may fail;
// an insert through the write guard is witnessed by `unit_registered`
pub uninterp spec fn unit_registered(name: Seq<char>, unit: metrique_writer_core::Unit) -> bool;
#[verifier::external_body] pub struct UnitsLock { _p: u8 }
#[verifier::external_body] pub struct UnitsWriteGuard<'a> { _p: &'a u8 }
#[verifier::external_body] pub struct PoisonError { _p: u8 }
#[verifier::external_body] pub struct TryLockError { _p: u8 }
impl core::fmt::Debug for PoisonError { #[verifier::external_body] fn fmt(&self, f: &mut core::fmt::Formatter<'_>) -> core::fmt::Result { unimplemented!() } }
impl UnitsLock {
    #[verifier::external_body] pub fn write(&self) -> (r: Result<UnitsWriteGuard<'_>, PoisonError>) ensures r is Ok { unimplemented!() }
    #[verifier::external_body] pub fn try_write(&self) -> (r: Result<UnitsWriteGuard<'_>, TryLockError>) { unimplemented!() }
}
impl<'a> UnitsWriteGuard<'a> {
    #[verifier::external_body]
    pub fn insert(&mut self, name: String, unit: metrique_writer_core::Unit) -> (r: Option<metrique_writer_core::Unit>) ensures unit_registered(name@, unit) { unimplemented!() }
}
pub struct MetricRecorderInner { pub units: UnitsLock }
pub struct MetricRecorder(pub Arc<MetricRecorderInner>);
#[verifier::external_body] pub fn verif_to_string(s: &str) -> (r: String) ensures r@ == s@ { unimplemented!() }
'''

_IMPL = r"^impl Recorder for MetricRecorder < dyn metrics_024 :: Recorder >$"


def _item(name):
    return dict(kind="fn", file=ACC, mod="impls_024", impl=_IMPL, name=name, label="MetricRecorder::" + name,
                impl_header_override="impl MetricRecorder", sig_replace=[("fn " + name, "pub fn " + name)], extra_rewrites=[d1_to_string], rules={"d1_to_string": 1}, unpinned=["d1_to_string"],
                ensures="""
            // C20: describing a metric registers the mapped unit under its name (it waits for the lock; it never skips the registration)
            unit_registered(key.text(), unit_map(unit)),          // OBL describe_registers_the_unit
         """)


ITEMS = [_item("describe_counter"), _item("describe_gauge"), _item("describe_histogram")]
POSTLUDE = ""
CANARY = dict(fn="MetricRecorder::describe_counter", replace=("unit_registered(key.text(), unit_map(unit)),", "unit_registered(key.text(), unit_map(unit)) && false,"))
