"""Unit `forceflag` (C15): ForceFlag (metrique-writer-core/src/value/force.rs) forces its flag onto every metric and changes
nothing else.  Same contract style as unit `boxed`: a by-value ValueWriter is consumed by one call, witnessed by `w.got(call)`;
entry writers carry a ghost log.  Under contract: the value-writer wrapper declared inside <ForceFlag as Value>::write
(string / metric / error), <ForceFlag as Value>::write itself, ForceFlagEntryWriter::{timestamp, value, config},
From<T> for ForceFlag.  `flags.try_merge(FLAGS::construct())` is the documented addition ("flags merged")."""
from units import boxed as _b

NAME = "forceflag"
PROPERTIES = ["C15"]
F = "metrique-writer-core/src/value/force.rs"

_EW_OLD = """pub trait EntryWriter<'a> {
    spec fn log(&self) -> Seq<Item>;
    fn timestamp(&mut self, timestamp: SystemTime)
        ensures final(self).log() == old(self).log().push(Item::Timestamp(timestamp));
    fn value<VerifI0: Into<Cow<'a, str>>, VerifI1: Value + ?Sized>(&mut self, name: VerifI0, value: &VerifI1)
        ensures final(self).log() == old(self).log().push(Item::Value(cow_text(name.into_spec()), value.call()));
    fn config(&mut self, config: &'a dyn EntryConfig)
        ensures final(self).log() == old(self).log().push(Item::Config(config_id(config)));
}"""
# an entry writer may decorate what it is given before it reaches the log (identity for plain writers): item_tr
_EW_NEW = """pub trait EntryWriter<'a> {
    spec fn log(&self) -> Seq<Item>;
    spec fn item_tr(&self, i: Item) -> Item;
    fn timestamp(&mut self, timestamp: SystemTime)
        ensures final(self).log() == old(self).log().push(old(self).item_tr(Item::Timestamp(timestamp))),
                forall|i: Item| final(self).item_tr(i) == old(self).item_tr(i);
    fn value<VerifI0: Into<Cow<'a, str>>, VerifI1: Value + ?Sized>(&mut self, name: VerifI0, value: &VerifI1)
        ensures final(self).log() == old(self).log().push(old(self).item_tr(Item::Value(cow_text(name.into_spec()), value.call()))),
                forall|i: Item| final(self).item_tr(i) == old(self).item_tr(i);
    fn config(&mut self, config: &'a dyn EntryConfig)
        ensures final(self).log() == old(self).log().push(old(self).item_tr(Item::Config(config_id(config)))),
                forall|i: Item| final(self).item_tr(i) == old(self).item_tr(i);
}"""
assert _EW_OLD in _b.PRELUDE
_P = _b.PRELUDE.replace(_EW_OLD, _EW_NEW)
# the bridge adapters of unit `boxed` are not part of this unit: drop the DynEntryWriter / Entry / DynEntry declarations that depend on the old contract
_P = _P[:_P.index("pub trait DynEntryWriter<'a> {")] + _P[_P.index("// a Cow<str> converts into itself"):_P.index("// ---- entries ---")]

# MetricFlags is extracted from flags.rs with its real representation (an optional reference to the flag set), so that code which looks
# at it (`flags.0.is_none()`, or a helper such as `is_empty` inlined by R21) is decided instead of being "unsupported"
_MF_STANDIN = "#[verifier::external_body] pub struct MetricFlags<'a> { _p: &'a u8 }\n"
assert _MF_STANDIN in _P
_FID = "pub uninterp spec fn flag_id(f: MetricFlags<'_>) -> int;\n"
assert _FID in _P
PRELUDE = _P.replace(_MF_STANDIN, "pub trait MetricOptions {}\n").replace(_FID, """// the identity of a set of flags: 0 for the empty set (flags.rs: `MetricFlags(None)`), else the identity of the option object
pub uninterp spec fn opt_id(o: &dyn MetricOptions) -> int;
pub open spec fn flag_id(f: MetricFlags<'_>) -> int { match f.0 { None => 0, Some(o) => opt_id(o) } }
""") + r'''
pub open spec fn force_item(i: Item, f: int) -> Item {
    match i { Item::Value(n, c) => Item::Value(n, forced(c, f)), Item::Timestamp(t) => Item::Timestamp(t), Item::Config(c) => Item::Config(c) }
}
use std::marker::PhantomData;
// try_merge (flags.rs, assumed): merging with the empty set yields the other set; two non-empty sets merge to something opaque
pub uninterp spec fn merged_nonempty(a: int, b: int) -> int;
pub open spec fn merged_flags(a: int, b: int) -> int { if a == 0 { b } else if b == 0 { a } else { merged_nonempty(a, b) } }
impl<'a> MetricFlags<'a> {
    // flags.rs try_merge: the union of both flag sets (panics if they conflict: not modelled)
    #[verifier::external_body]
    pub fn try_merge(&self, other: MetricFlags<'a>) -> (r: MetricFlags<'a>) ensures flag_id(r) == merged_flags(flag_id(*self), flag_id(other)) { unimplemented!() }
}

pub trait FlagConstructor {
    spec fn flag() -> int;
    fn construct() -> (r: MetricFlags<'static>) ensures flag_id(r) == Self::flag();
}
// what forcing the flag F does to one value-writer call: a metric gets the flag merged in, everything else is untouched
pub open spec fn forced(c: VCall, f: int) -> VCall {
    match c {
        VCall::Metric(d, u, m, fl) => VCall::Metric(d, u, m, merged_flags(fl, f)),
        VCall::String(s) => VCall::String(s),
        VCall::Error(e) => VCall::Error(e),
    }
}
// the forwarding impl for references (verified in unit `wrappers`; assumed here)
impl<T: Value + ?Sized> Value for &T {
    open spec fn call(&self) -> VCall { (**self).call() }
    #[verifier::external_body]
    fn write<VerifI0: ValueWriter>(&self, writer: VerifI0) { unimplemented!() }
}
pub struct Wrapper<W, FLAGS: FlagConstructor>(pub W, pub PhantomData<FLAGS>);
'''

_IN = (r"^impl < T : Value , FLAGS : FlagConstructor > Value for ForceFlag < T , FLAGS >$", "write")
_W = r"^impl < W : ValueWriter , FLAGS : FlagConstructor > ValueWriter for Wrapper < W , FLAGS >$"
_EW = r"^impl < 'a , W : EntryWriter < 'a > , FLAGS : FlagConstructor > EntryWriter < 'a > for ForceFlagEntryWriter < '_ , W , FLAGS >$"

ITEMS = [
    dict(kind="struct", file="metrique-writer-core/src/value/flags.rs", name="MetricFlags", attrs=["#[derive(Clone, Copy)]"]),
    dict(kind="struct", file=F, name="ForceFlag", attrs=["#[verifier::reject_recursive_types(T)]", "#[verifier::reject_recursive_types(FLAGS)]"]),
    dict(kind="struct", file=F, name="ForceFlagEntryWriter", attrs=["#[verifier::reject_recursive_types(W)]", "#[verifier::reject_recursive_types(FLAGS)]"]),
    dict(kind="fn", file=F, impl=r"^impl < T , FLAGS : FlagConstructor > From < T > for ForceFlag < T , FLAGS >$", name="from", ret="r", label="ForceFlag::from",
         impl_header_override="impl<T, FLAGS: FlagConstructor> ForceFlag<T, FLAGS>",
         ensures="r.0 == value,"),
    # the wrapper declared inside <ForceFlag as Value>::write
    dict(kind="fn", file=F, inside_fn=_IN, impl=_W, name="string", label="ForceFlag::Wrapper::string",
         impl_extra="    open spec fn usable(self) -> bool { self.0.usable() }\n"
                    "    // C15: what reaches the wrapped writer is the call with the flag forced in\n"
                    "    open spec fn got(self, c: VCall) -> bool { self.0.got(forced(c, FLAGS::flag())) }\n"),
    dict(kind="fn", file=F, inside_fn=_IN, impl=_W, name="metric", label="ForceFlag::Wrapper::metric", impl_trait_args=True, rules={"R14": 2},
         proofs=[("start", None,
                  "let ghost verif_f0 = flag_id($arg3); let ghost verif_u0 = $arg1; let ghost verif_d0 = $arg0.elems(); let ghost verif_m0 = dims_view($arg2.elems());"),
                 ("end", None,
                  """proof {
                        let f2 = merged_flags(verif_f0, FLAGS::flag());
                        let (d, m) = choose|d: Seq<Observation>, m: Seq<(Seq<char>, Seq<char>)>| self.0.got(#[trigger] mk_metric(d, verif_u0, m, f2))
                            && d =~= verif_d0 && m =~= verif_m0;
                        assert(forced(mk_metric(d, verif_u0, m, verif_f0), FLAGS::flag()) == mk_metric(d, verif_u0, m, f2));
                        assert(self.got(mk_metric(d, verif_u0, m, verif_f0)));
                     }""")]),
    dict(kind="fn", file=F, inside_fn=_IN, impl=_W, name="error", label="ForceFlag::Wrapper::error"),
    dict(kind="fn", file=F, impl=_IN[0], name="write", label="<ForceFlag as Value>::write", impl_trait_args=True, rules={"R14": 1}, nested_items_dropped=True,
         impl_extra="    open spec fn call(&self) -> VCall { forced(self.0.call(), FLAGS::flag()) }\n"),
    dict(kind="fn", file=F, impl=_EW, name="timestamp", label="ForceFlagEntryWriter::timestamp", sig_replace=[("std::time::SystemTime", "SystemTime")],
         impl_extra="    open spec fn log(&self) -> Seq<Item> { (*self.writer).log() }\n"
                    "    // C15: every value written through the wrapper reaches the wrapped writer with the flag forced in; nothing else changes\n"
                    "    open spec fn item_tr(&self, i: Item) -> Item { (*self.writer).item_tr(force_item(i, FLAGS::flag())) }\n"),
    dict(kind="fn", file=F, impl=_EW, name="value", label="ForceFlagEntryWriter::value", impl_trait_args=True, rules={"R14": 2},
         sig_replace=[("std::borrow::Cow", "Cow"), ("crate::Value", "Value")]),
    dict(kind="fn", file=F, impl=_EW, name="config", label="ForceFlagEntryWriter::config", sig_replace=[("crate::EntryConfig", "EntryConfig")]),
]
POSTLUDE = ""
CANARY = dict(fn="<ForceFlag as Value>::write", field="impl_extra", replace=("{ forced(self.0.call(), FLAGS::flag()) }", "{ self.0.call() }"))
