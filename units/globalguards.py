"""Unit `globalguards` (C17, C05): the handles and guards of a global sink (metrique-writer-core/src/global.rs, outside the macro):
AttachHandle::{new, forget} and its Drop::drop; ThreadLocalTestSinkGuard's and TokioRuntimeTestSinkGuard's Drop::drop
(all verified as inherent methods).

Proved: dropping an attach handle calls its detach function exactly when it still holds one, and holds none afterwards; a forgotten
handle holds none (its drop does nothing); the thread-local guard calls its clear function; the runtime guard removes exactly its
own runtime's entry from the shared map."""

NAME = "globalguards"
PROPERTIES = ["C17", "C05"]
G = "metrique-writer-core/src/global.rs"

def _stmt(name, old, new, doc):
    def f(text):
        n = text.count(old)
        return text.replace(old, new), n
    f.__name__ = name
    f.__doc__ = doc
    return f


# this Verus has no function-pointer types: `fn()` is the stand-in type VerifFnPtr, a call `f()` is `f.verif_call()` (witnessed by `called(f)`)
g2 = _stmt("g2_call_join", "join();", "join.verif_call();", "G2: call of the stored fn() pointer")
g3 = _stmt("g3_call_clear", "(self.clear_fn)();", "self.clear_fn.verif_call();", "G3: call of the stored fn() pointer")

PRELUDE = r'''
use std::marker::PhantomData;
#[verifier::external_body] #[derive(Clone, Copy)] pub struct VerifFnPtr { _p: u8 }
pub uninterp spec fn called(f: VerifFnPtr) -> bool;
impl VerifFnPtr { #[verifier::external_body] pub fn verif_call(&self) ensures called(*self) { unimplemented!() } }
pub mod tokio { pub mod runtime { #[verifier::external_body] #[derive(Clone, Copy)] pub struct Id { _p: u8 } } }
#[verifier::external_body] pub struct BoxEntrySink { _p: u8 }
#[verifier::external_body] pub struct PoisonError { _p: u8 }
impl core::fmt::Debug for PoisonError { #[verifier::external_body] fn fmt(&self, f: &mut core::fmt::Formatter<'_>) -> core::fmt::Result { unimplemented!() } }
// Arc<Mutex<HashMap<runtime id, sink>>> (stand-in): removing a key is witnessed by `removed_key`; nothing else can be done to the map here
pub uninterp spec fn removed_key(map: RuntimeSinkMap, id: tokio::runtime::Id) -> bool;
#[verifier::external_body] pub struct RuntimeSinkMap { _p: u8 }
#[verifier::external_body] pub struct RtMapGuard<'a> { _p: &'a u8 }
impl RuntimeSinkMap {
    #[verifier::external_body]
    pub fn lock(&self) -> (r: Result<RtMapGuard<'_>, PoisonError>) ensures r is Ok, r->Ok_0.of() == *self { unimplemented!() }
}
impl<'a> RtMapGuard<'a> {
    pub uninterp spec fn of(&self) -> RuntimeSinkMap;
    #[verifier::external_body]
    pub fn remove(&mut self, id: &tokio::runtime::Id) -> (r: Option<BoxEntrySink>) ensures removed_key(old(self).of(), *id), final(self).of() == old(self).of() { unimplemented!() }
}
'''

ITEMS = [
    dict(kind="struct", file=G, name="AttachHandle", text_replace=[("Option<fn()>", "Option<VerifFnPtr>")], rules={"T:Option<fn()>": 1}),
    dict(kind="fn", file=G, impl=r"^impl Drop for AttachHandle$", name="drop", label="AttachHandle::drop",
         impl_header_override="impl AttachHandle", rules={"g2_call_join": 1}, extra_rewrites=[g2], unpinned=["g2_call_join"],
         ensures="""
            // C17 / C05: dropping the handle runs the detach-and-join function it holds, once (it holds none afterwards)
            old(self).join is Some ==> called(old(self).join->0),                     // OBL attach_handle_drop_runs_the_join
            final(self).join is None,
         """),
    dict(kind="fn", file=G, impl=r"^impl AttachHandle$", name="new", ret="r", label="AttachHandle::new", sig_replace=[("join: fn()", "join: VerifFnPtr")],
         ensures="r.join == Some(join),"),
    dict(kind="fn", file=G, impl=r"^impl AttachHandle$", name="forget", label="AttachHandle::forget",
         # `forget(mut self)`: the value is dropped at the end of the body (Rust); what that drop sees is stated as an assertion at the end
         proofs=[("end", None, "proof { assert(__s.join is None); /* OBL forgotten_handle_holds_no_join (R7: `mut self` is the local __s) */ }")]),
    dict(kind="struct", file=G, name="ThreadLocalTestSinkGuard", feature_on="test-util", text_replace=[("clear_fn: fn(),", "clear_fn: VerifFnPtr,"), ("PhantomData<*const ()>", "PhantomData<()>")], rules={"R4f": 1, "T:clear_fn: fn(),": 1, "T:PhantomData<*const ()>": 1}),
    dict(kind="fn", file=G, impl=r"^impl Drop for ThreadLocalTestSinkGuard$", name="drop", label="ThreadLocalTestSinkGuard::drop",
         impl_header_override="impl ThreadLocalTestSinkGuard", rules={"g3_call_clear": 1}, extra_rewrites=[g3], unpinned=["g3_call_clear"],
         ensures="called(old(self).clear_fn),                                           // OBL thread_local_guard_drop_clears"),
    dict(kind="struct", file=G, name="TokioRuntimeTestSinkGuard", feature_on="test-util", rules={"R4f": 1}),
    dict(kind="fn", file=G, impl=r"^impl Drop for TokioRuntimeTestSinkGuard$", name="drop", label="TokioRuntimeTestSinkGuard::drop",
         impl_header_override="impl TokioRuntimeTestSinkGuard",
         ensures="removed_key(old(self).map, old(self).runtime_id),                                   // OBL runtime_guard_drop_removes_its_own_entry"),
]
POSTLUDE = ""
CANARY = dict(fn="AttachHandle::drop", replace=("final(self).join is None,", "final(self).join is Some,"))
