"""Unit `bgq_build` (C09 / C01 / C05 plumbing): BackgroundQueueBuilder::do_build (metrique-writer/src/sink/background.rs) wires the
queue, the writer thread and the join handle together as configured.

One statement is rewritten (exact text, pinned): the `thread::Builder::new().name(..).spawn(move || receiver.run(flush_queue_receiver)).unwrap()`
expression becomes a stand-in call that records WHICH receiver the new thread runs (witness `runs`).  Proved: the ring has exactly
the configured capacity; the writer thread serves the very queue that is returned (same Arc), with the configured flush interval
and shutdown timeout, the given stream, and the shutdown flag / parker that the join handle and the appenders use."""
from units import bgq_run as _r

NAME = "bgq_build"
PROPERTIES = ["C09", "C01", "C05"]
BG = "metrique-writer/src/sink/background.rs"


def b1_spawn(text):
    """B1: thread::Builder::new().name(N).spawn(move || receiver.run(flush_queue_receiver)).unwrap()  ->  verif_spawn_writer(N, receiver, flush_queue_receiver)"""
    import re
    pat = r"thread::Builder::new\(\)\s*\.name\(([^)]*)\)\s*\.spawn\(move \|\| receiver\.run\(flush_queue_receiver\)\)\s*\.unwrap\(\)"
    n = len(re.findall(pat, text))
    return re.sub(pat, r"verif_spawn_writer(\1, receiver, flush_queue_receiver)", text), n


PRELUDE = _r.PRELUDE + r'''
impl<E> ArrayQueue<E> {
    pub uninterp spec fn cap(&self) -> usize;
    #[verifier::external_body]
    pub fn new(cap: usize) -> (r: Self) ensures r.cap() == cap { unimplemented!() }
}
pub uninterp spec fn pairs(p: Parker, u: Unparker) -> bool;
impl Default for Parker { #[verifier::external_body] fn default() -> Parker { unimplemented!() } }
impl Parker {
    #[verifier::external_body]
    pub fn unparker(&self) -> (r: &Unparker) ensures pairs(*self, *r) { unimplemented!() }
}
impl Clone for Unparker { #[verifier::external_body] fn clone(&self) -> (r: Unparker) ensures r == *self { unimplemented!() } }
impl AtomicBool { #[verifier::external_body] pub fn new(v: bool) -> AtomicBool { unimplemented!() } }
pub assume_specification<T>[ std::sync::mpsc::channel ]() -> (r: (std::sync::mpsc::Sender<T>, std::sync::mpsc::Receiver<T>));
// B1: the new thread runs `receiver.run(flush_queue_receiver)`
pub uninterp spec fn runs<S, E>(h: thread::JoinHandle<()>, r: Receiver<S, E>) -> bool;
#[verifier::external_body]
pub fn verif_spawn_writer<S: EntryIoStream, E: Entry>(name: String, receiver: Receiver<S, E>, flush_queue_receiver: std::sync::mpsc::Receiver<FlushSignal>) -> (h: thread::JoinHandle<()>)
    ensures runs(h, receiver)
{ unimplemented!() }
'''

ITEMS = [it for it in _r.ITEMS if it.get("kind") == "struct" or (it.get("kind") == "raw" and it.get("label") == "wt_abs")] + [
    dict(kind="struct", file=BG, name="BackgroundQueueBuilder"),
    dict(kind="struct", file=BG, name="BackgroundQueueJoinHandle"),
    dict(kind="fn", file=BG, impl=r"^impl BackgroundQueueBuilder$", name="do_build", ret="r", label="BackgroundQueueBuilder::do_build",
         rules={"b1_spawn": 1}, extra_rewrites=[b1_spawn],
         closures={1: dict(params="", ret="(s: String)")},
         proofs=[
             ("before", "let handle = verif_spawn_writer", "let ghost verif_recv = receiver;"),
             ("after", "let handle = verif_spawn_writer ( ___ ) ;",
              """proof {
                    assert(runs(handle, verif_recv));
                    assert(verif_recv.inner == inner);
                    assert(verif_recv.stream == stream);
                    assert(verif_recv.shutdown_signal == shutdown_signal);
                    assert(pairs(verif_recv.parker, inner.unparker));
                    assert(verif_recv.flush_interval == self.flush_interval);
                    assert(verif_recv.shutdown_timeout == self.shutdown_timeout);
                 }"""),
         ],
         ensures="""
            // C09: the ring holds exactly as many entries as configured (an entry is lost only if `capacity` newer ones arrive)
            r.0.queue.cap() == self.capacity,                                                           // OBL queue_has_the_configured_capacity
            // C01 / C05: the writer thread serves the queue that is handed out, with the configured timing and the given stream, and is
            // stopped / woken through the very flag and parker that the join handle and the appenders use
            exists|recv: Receiver<S, E>, h: thread::JoinHandle<()>| r.1.handle == Some(h) && #[trigger] runs(h, recv)
                && recv.inner == r.0 && recv.stream == stream
                && recv.flush_interval == self.flush_interval && recv.shutdown_timeout == self.shutdown_timeout
                && recv.shutdown_signal == r.1.shutdown_signal && pairs(recv.parker, r.0.unparker),           // OBL writer_thread_serves_this_queue
            r.1.unparker == r.0.unparker,                                                                // OBL join_handle_wakes_the_writer
            r.0.recorder == self.metric_recorder,
         """),
]
POSTLUDE = ""
CRATE_ATTRS = _r.CRATE_ATTRS
CANARY = dict(fn="BackgroundQueueBuilder::do_build", replace=("r.0.queue.cap() == self.capacity,", "r.0.queue.cap() != self.capacity,"))
