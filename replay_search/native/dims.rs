// Native replay search for unit dims (C15): do the dimension-appending wrappers hand a metric on with the same distribution / unit
// and with their dimensions AFTER the ones the value already had; do deny-listed names pass through undecorated?
use metrique_writer::entry::WithGlobalDimensions;
use metrique_writer_core::value::WithDimensions;
use metrique_writer_core::{Entry, EntryConfig, EntryWriter, MetricFlags, Observation, Unit, ValidationError, Value, ValueWriter};
use std::borrow::Cow;
use std::cell::RefCell;
use std::collections::HashSet;
use std::time::SystemTime;

#[derive(Default)]
struct Rec { items: RefCell<Vec<(String, String)>> }
struct VW<'r> { name: String, rec: &'r Rec }
impl ValueWriter for VW<'_> {
    fn string(self, value: &str) { self.rec.items.borrow_mut().push((self.name, format!("string {value}"))); }
    fn metric<'a>(self, distribution: impl IntoIterator<Item = Observation>, unit: Unit, dimensions: impl IntoIterator<Item = (&'a str, &'a str)>, _flags: MetricFlags<'_>) {
        let d: Vec<_> = distribution.into_iter().collect();
        let m: Vec<_> = dimensions.into_iter().collect();
        self.rec.items.borrow_mut().push((self.name, format!("metric {d:?} {unit:?} {m:?}")));
    }
    fn error(self, error: ValidationError) { self.rec.items.borrow_mut().push((self.name, format!("error {error}"))); }
}
struct EW<'r> { rec: &'r Rec }
impl<'a> EntryWriter<'a> for EW<'_> {
    fn timestamp(&mut self, _t: SystemTime) { self.rec.items.borrow_mut().push(("<timestamp>".into(), String::new())); }
    fn value(&mut self, name: impl Into<Cow<'a, str>>, value: &(impl Value + ?Sized)) {
        let name: Cow<'a, str> = name.into();
        value.write(VW { name: name.into_owned(), rec: self.rec });
    }
    fn config(&mut self, _c: &'a dyn EntryConfig) { self.rec.items.borrow_mut().push(("<config>".into(), String::new())); }
}
struct E;
impl Entry for E {
    fn write<'a>(&'a self, w: &mut impl EntryWriter<'a>) {
        w.timestamp(SystemTime::UNIX_EPOCH);
        w.value("Plain", &7u64);
        w.value("Own", &WithDimensions::<_, 1>::new(9u64, "own", "x"));
        w.value("Denied", &WithDimensions::<_, 1>::new(3u64, "own", "y"));
        w.value("Text", "hello");
    }
}
fn fail(input: &str, got: String, want: String) -> ! {
    println!("FAILING_INPUT: {input}");
    println!("FAILURE: reported {got}, want {want}");
    panic!("postcondition violated");
}

#[test]
fn verif_replay_search() {
    // per-value dimensions: nested wrappers, inner dimensions first
    let rec = Rec::default();
    let v = WithDimensions::<_, 1>::new(WithDimensions::<_, 1>::new(5u64, "a", "1"), "b", "2");
    v.write(VW { name: "v".into(), rec: &rec });
    let got = rec.items.borrow()[0].1.clone();
    let want = r#"metric [Unsigned(5)] None [("a", "1"), ("b", "2")]"#.to_string();
    if got != want { fail("WithDimensions::new(WithDimensions::new(5u64, \"a\", \"1\"), \"b\", \"2\").write(recording writer)", got, want); }

    // global dimensions: appended after the value's own, deny-listed names untouched, the rest untouched
    let rec = Rec::default();
    let deny: HashSet<Cow<'static, str>> = [Cow::Borrowed("Denied")].into_iter().collect();
    let g = WithGlobalDimensions::<_, 2>::new_with_global_dimensions(E, [("g1", "p"), ("g2", "q")], deny);
    g.write(&mut EW { rec: &rec });
    let got: Vec<(String, String)> = rec.items.borrow().clone();
    let want: Vec<(String, String)> = vec![
        ("<timestamp>".into(), "".into()),
        ("Plain".into(), r#"metric [Unsigned(7)] None [("g1", "p"), ("g2", "q")]"#.into()),
        ("Own".into(), r#"metric [Unsigned(9)] None [("own", "x"), ("g1", "p"), ("g2", "q")]"#.into()),
        ("Denied".into(), r#"metric [Unsigned(3)] None [("own", "y")]"#.into()),
        ("Text".into(), "string hello".into()),
    ];
    if got != want {
        fail("WithGlobalDimensions::new_with_global_dimensions(entry, [(g1,p),(g2,q)], deny={Denied}).write(recording writer), entry = [timestamp, Plain=7, Own=9 with (own,x), Denied=3 with (own,y), Text=\"hello\"]",
             format!("{got:?}"), format!("{want:?}"));
    }
    println!("SEARCHED: nested per-value dimensions and global dimensions over an entry with plain / own-dimension / deny-listed / string values: order and pass-through as documented");
}
