// Appended to metrique-aggregation/src/histogram.rs under #[cfg(kani)] in a scratch copy (C11, numeric glue of the
// exponential strategy).  The dependency's `add` is stubbed by a recorder: what is checked is the value and count that
// metrique's own record_many hands to it.
#[cfg(kani)]
mod verif_kani {
    use super::*;

    static mut SEEN: Option<(u64, u64)> = None;
    static mut CALLS: u32 = 0;
    fn add_recorder(_h: &mut histogram::Histogram, value: u64, count: u64) -> Result<(), histogram::Error> {
        unsafe {
            SEEN = Some((value, count));
            CALLS += 1;
        }
        Ok(())
    }

    // For every finite value 0 <= x < 2^43 and every count: exactly one add, with the count unchanged and the value
    // floor(x * 2^10) (scaling by a power of two is exact, the cast truncates).
    #[kani::proof]
    #[kani::stub(histogram::Histogram::add, add_recorder)]
    fn record_many_scales_by_1024_and_truncates() {
        let mut s = ExponentialAggregationStrategy::new();
        let x: f64 = kani::any();
        kani::assume(x >= 0.0 && x < 8796093022208.0);
        let c: u64 = kani::any();
        s.record_many(x, c);
        let (v, cc) = unsafe { SEEN.unwrap() };
        assert!(unsafe { CALLS } == 1);
        assert!(cc == c);
        assert!(v < (1u64 << 53));
        let scaled = x * 1024.0;
        assert!((v as f64) <= scaled && scaled < (v as f64) + 1.0);
        kani::cover!(v > 0 && (v as f64) < scaled, "a fractional scaled value is reachable");
    }

    // Values at or above 2^64 / 2^10 (and +infinity) saturate at u64::MAX instead of wrapping.
    #[kani::proof]
    #[kani::stub(histogram::Histogram::add, add_recorder)]
    fn record_many_saturates() {
        let mut s = ExponentialAggregationStrategy::new();
        let x: f64 = kani::any();
        kani::assume(x >= 18014398509481984.0); // 2^54 = 2^64 / 2^10
        s.record_many(x, 1);
        let (v, _) = unsafe { SEEN.unwrap() };
        assert!(v == u64::MAX);
    }

    fn atomic_add_recorder(_h: &histogram::AtomicHistogram, value: u64, count: u64) -> Result<(), histogram::Error> {
        unsafe {
            SEEN = Some((value, count));
            CALLS += 1;
        }
        Ok(())
    }
    // the atomic variant hands the dependency exactly the same value and count
    #[kani::proof]
    #[kani::stub(histogram::AtomicHistogram::add, atomic_add_recorder)]
    fn atomic_record_many_scales_by_1024_and_truncates() {
        let s = AtomicExponentialAggregationStrategy::new();
        let x: f64 = kani::any();
        kani::assume(x >= 0.0 && x < 8796093022208.0);
        let c: u64 = kani::any();
        s.record_many(x, c);
        let (v, cc) = unsafe { SEEN.unwrap() };
        assert!(unsafe { CALLS } == 1);
        assert!(cc == c);
        let scaled = x * 1024.0;
        assert!((v as f64) <= scaled && scaled < (v as f64) + 1.0);
    }
}
