// Native replay search for unit emf_wav (C16): drive the real formatter (and through it the real write_all_vectored)
// with scripted writers - each write_vectored call answers Accept(k bytes) / Interrupted / (finally) accept everything -
// and compare the bytes received with what a plain Vec<u8> receives for the same entry.
use metrique_writer::{Entry, EntryWriter, format::Format};
use metrique_writer_format_emf::Emf;
use std::io::{self, IoSlice, Write};

struct E;
impl Entry for E {
    fn write<'a>(&'a self, w: &mut impl EntryWriter<'a>) {
        w.timestamp(std::time::SystemTime::UNIX_EPOCH);
        w.value("Count", &7u64);
        w.value("Name", "abc");
    }
}

#[derive(Clone, Copy, Debug, PartialEq)]
enum Act { Take(usize), Interrupted, Hard }

struct Scripted { script: Vec<Act>, pos: usize, got: Vec<u8> }
impl Write for Scripted {
    fn write(&mut self, buf: &[u8]) -> io::Result<usize> { self.write_vectored(&[IoSlice::new(buf)]) }
    fn write_vectored(&mut self, bufs: &[IoSlice<'_>]) -> io::Result<usize> {
        let act = self.script.get(self.pos).copied().unwrap_or(Act::Take(usize::MAX));
        self.pos += 1;
        match act {
            Act::Interrupted => Err(io::ErrorKind::Interrupted.into()),
            Act::Hard => Err(io::ErrorKind::BrokenPipe.into()),
            Act::Take(k) => {
                let mut left = k.max(1);
                let mut n = 0;
                for b in bufs {
                    let t = left.min(b.len());
                    self.got.extend_from_slice(&b[..t]);
                    n += t; left -= t;
                    if left == 0 { break; }
                }
                Ok(n)
            }
        }
    }
    fn flush(&mut self) -> io::Result<()> { Ok(()) }
}

#[test]
fn verif_replay_search() {
    let mut reference = Vec::new();
    Emf::all_validations("NS".into(), vec![vec![]]).format(&E, &mut reference).unwrap();
    let alphabet = [Act::Take(1), Act::Take(5), Act::Take(40), Act::Take(usize::MAX), Act::Interrupted, Act::Hard];
    let mut n = 0u64;
    // all scripts of length <= 4 over the alphabet
    for len in 0..=4usize {
        let mut idx = vec![0usize; len];
        loop {
            let script: Vec<Act> = idx.iter().map(|&i| alphabet[i]).collect();
            let mut w = Scripted { script: script.clone(), pos: 0, got: Vec::new() };
            let caught = std::panic::catch_unwind(std::panic::AssertUnwindSafe(|| Emf::all_validations("NS".into(), vec![vec![]]).format(&E, &mut w)));
            n += 1;
            let r = match caught {
                Ok(r) => r,
                Err(_) => {
                    println!("FAILING_INPUT: writer script {:?} (then accept everything), entry {{timestamp 0, Count=7, Name=\"abc\"}}", script);
                    println!("FAILURE: the formatter panicked; received so far={:?}", String::from_utf8_lossy(&w.got));
                    panic!("postcondition violated");
                }
            };
            let hard = script.iter().take(w.pos).any(|a| *a == Act::Hard);
            let bad = match &r {
                Ok(()) => w.got != reference,
                Err(_) => !hard || !reference.starts_with(&w.got),
            };
            if bad {
                println!("FAILING_INPUT: writer script {:?} (then accept everything), entry {{timestamp 0, Count=7, Name=\"abc\"}}", script);
                println!("FAILURE: result={:?} received={:?} expected={:?}", r.as_ref().map_err(|e| e.to_string()), String::from_utf8_lossy(&w.got), String::from_utf8_lossy(&reference));
                panic!("postcondition violated");
            }
            let mut k = 0;
            while k < len { idx[k] += 1; if idx[k] < alphabet.len() { break; } idx[k] = 0; k += 1; }
            if k == len { break; }
        }
    }
    println!("SEARCHED: {n} writer scripts (<=4 answers over take 1/5/40/all, Interrupted, hard error), received bytes equal the reference or a prefix on hard error");
}
