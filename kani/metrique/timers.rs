// Appended to metrique/src/timers.rs under #[cfg(kani)] in a scratch copy (C18, shared representation).
// The Verus unit `timers` covers the exclusive representation; the owned-guard representation shares the
// total through Arc<Mutex<Option<Duration>>> (aliasing), which is executed for real here.  Guards are built
// from struct literals in an already-stopped state (self_time = Some(span)), so no clock is involved: a
// guard's span is by definition what it measured at its first stop.
#[cfg(kani)]
mod verif_kani {
    use super::*;

    fn any_dur() -> Duration {
        // bounded so that Duration addition cannot overflow (stated precondition of the property)
        let s: u32 = kani::any();
        let n: u32 = kani::any();
        kani::assume(n < 1_000_000_000);
        Duration::new(s as u64, n)
    }
    fn any_total() -> Option<Duration> {
        if kani::any() { Some(any_dur()) } else { None }
    }
    fn stopwatch_with(total: Option<Duration>) -> Stopwatch {
        Stopwatch { time_source: TimeSource::System, start: None, duration: MaybeGuardedDuration::Exclusive(total) }
    }
    fn stopped_owned_guard(sw: &mut Stopwatch, span: Duration) -> OwnedTimerGuard {
        // what start_owned() + a first stop produce, minus the clock
        OwnedTimerGuard { start: None, self_time: Some(span), timer: MaybeGuardedDuration::Shared(sw.duration.shared_cloned()) }
    }
    fn plus(t: Option<Duration>, s: Duration) -> Option<Duration> { Some(t.unwrap_or_default() + s) }

    // switching to the shared representation keeps the total
    #[kani::proof]
    #[kani::unwind(2)]
    fn shared_cloned_keeps_total() {
        let total = any_total();
        let mut sw = stopwatch_with(total);
        let _h = sw.duration.shared_cloned();
        assert!(matches!(sw.duration, MaybeGuardedDuration::Shared(_)));
        assert!((&sw).close() == total);
        let _h2 = sw.duration.shared_cloned(); // second switch is a no-op
        assert!((&sw).close() == total);
    }

    // an owned guard adds its span exactly once when dropped, and the stopwatch sees it (aliasing)
    #[kani::proof]
    #[kani::unwind(2)]
    fn owned_guard_drop_adds_span_once() {
        let total = any_total();
        let span = any_dur();
        let mut sw = stopwatch_with(total);
        let g = stopped_owned_guard(&mut sw, span);
        assert!((&sw).close() == total); // nothing added while the guard is alive
        drop(g);
        assert!((&sw).close() == plus(total, span));
    }

    #[kani::proof]
    #[kani::unwind(2)]
    fn owned_guard_stop_returns_span_and_adds_once() {
        let total = any_total();
        let span = any_dur();
        let mut sw = stopwatch_with(total);
        let g = stopped_owned_guard(&mut sw, span);
        let r = g.stop();
        assert!(r == span);
        assert!((&sw).close() == plus(total, span));
    }

    #[kani::proof]
    #[kani::unwind(2)]
    fn owned_guard_discard_adds_nothing() {
        let total = any_total();
        let mut sw = stopwatch_with(total);
        let g = stopped_owned_guard(&mut sw, any_dur());
        g.discard();
        assert!((&sw).close() == total);
    }

    #[kani::proof]
    #[kani::unwind(2)]
    fn owned_guard_overwrite_replaces_total() {
        let total = any_total();
        let span = any_dur();
        let mut sw = stopwatch_with(total);
        let g = stopped_owned_guard(&mut sw, span);
        g.overwrite();
        assert!((&sw).close() == Some(span));
    }

    // several concurrently live owned guards interact only through the total
    #[kani::proof]
    #[kani::unwind(2)]
    fn two_live_owned_guards_both_count() {
        let total = any_total();
        let (s1, s2) = (any_dur(), any_dur());
        let mut sw = stopwatch_with(total);
        let g1 = stopped_owned_guard(&mut sw, s1);
        let g2 = stopped_owned_guard(&mut sw, s2);
        drop(g2);
        drop(g1);
        assert!((&sw).close() == plus(plus(total, s2), s1));
    }

    // documented: clear() empties the stopwatch, but guards that are still live keep writing to THIS stopwatch
    #[kani::proof]
    #[kani::unwind(2)]
    fn clear_with_live_owned_guard() {
        let total = any_total();
        let span = any_dur();
        let mut sw = stopwatch_with(total);
        let g = stopped_owned_guard(&mut sw, span);
        sw.clear();
        assert!((&sw).close() == None);
        drop(g);
        assert!((&sw).close() == Some(span));
    }

    // a borrowed guard on a stopwatch that is already shared goes through the same cell
    #[kani::proof]
    #[kani::unwind(2)]
    fn borrowed_guard_on_shared_stopwatch() {
        let total = any_total();
        let (s1, s2) = (any_dur(), any_dur());
        let mut sw = stopwatch_with(total);
        let g1 = stopped_owned_guard(&mut sw, s1);
        {
            let g = TimerGuard { start: None, self_time: Some(s2), timer: &mut sw.duration };
            drop(g);
        }
        drop(g1);
        assert!((&sw).close() == plus(plus(total, s2), s1));
    }

    // a borrowed guard's overwrite / discard on a stopwatch that is shared with a live owned guard: the stopwatch
    // must stay attached to the shared cell (the owned guard's span still counts afterwards)
    #[kani::proof]
    #[kani::unwind(2)]
    fn borrowed_overwrite_with_live_owned_guard() {
        let total = any_total();
        let (s1, s2) = (any_dur(), any_dur());
        let mut sw = stopwatch_with(total);
        let g1 = stopped_owned_guard(&mut sw, s1);
        {
            let g = TimerGuard { start: None, self_time: Some(s2), timer: &mut sw.duration };
            g.overwrite();
        }
        assert!((&sw).close() == Some(s2)); // overwrite replaces the total by the guard's span
        drop(g1);
        assert!((&sw).close() == Some(s2 + s1)); // and the live owned guard still writes to THIS stopwatch
    }
    #[kani::proof]
    #[kani::unwind(2)]
    fn borrowed_discard_with_live_owned_guard() {
        let total = any_total();
        let (s1, s2) = (any_dur(), any_dur());
        let mut sw = stopwatch_with(total);
        let g1 = stopped_owned_guard(&mut sw, s1);
        {
            let g = TimerGuard { start: None, self_time: Some(s2), timer: &mut sw.duration };
            g.discard();
        }
        assert!((&sw).close() == total);
        drop(g1);
        assert!((&sw).close() == plus(total, s1));
    }
}
