"""Unit `timers` (C18): single-step contracts of the stopwatch / timer operations, extracted from
metrique/src/timers.rs.  Durations are an abstract number of nanoseconds; the clock is an oracle:
`Instant::elapsed()` returns an arbitrary duration and witnesses it with `measured(start, d)`, so
"the span of a guard" is by definition what the clock reported at its first stop.  Every operation
is verified from an ARBITRARY state of the EXCLUSIVE representation; induction over operations
then covers every history.  The Arc<Mutex<..>> (shared / owned-guard) representation needs aliasing
and is covered by the Kani group `timers_shared`, not here."""

NAME = "timers"
PROPERTIES = ["C18"]
T = "metrique/src/timers.rs"

PRELUDE = r'''
use vstd::std_specs::ops::AddSpecImpl;
use std::sync::Arc;
// ---- abstract time -----------------------------------------------------------------------------
#[derive(Clone, Copy)]
pub struct Duration { pub ns: u128 }
impl Duration {
    pub fn is_zero(&self) -> (r: bool) ensures r == (self.ns == 0) { self.ns == 0 }
}
impl vstd::std_specs::ops::AddSpecImpl<Duration> for Duration {
    open spec fn obeys_add_spec() -> bool { true }
    // std's Duration addition panics on overflow (> u64::MAX seconds): stated precondition
    open spec fn add_req(self, rhs: Duration) -> bool { self.ns + rhs.ns <= u128::MAX }
    open spec fn add_spec(self, rhs: Duration) -> Duration { Duration { ns: (self.ns + rhs.ns) as u128 } }
}
impl core::ops::Add<Duration> for Duration {
    type Output = Duration;
    fn add(self, rhs: Duration) -> (r: Duration) { Duration { ns: self.ns + rhs.ns } }
}
impl Default for Duration { fn default() -> (r: Duration) ensures r.ns == 0 { Duration { ns: 0 } } }

// the clock: elapsed() may return anything; `measured` can only be established by reading the clock
#[verifier::external_body] pub struct Instant { p: u8 }
pub uninterp spec fn measured(start: Instant, d: Duration) -> bool;
impl Instant {
    #[verifier::external_body]
    pub fn elapsed(&self) -> (r: Duration) ensures measured(*self, r), r.ns <= 0xFFFF_FFFF_FFFF_FFFF_FFFF { unimplemented!() }
}
#[verifier::external_body] pub struct TimeSource { p: u8 }
impl TimeSource {
    #[verifier::external_body]
    pub fn instant(&self) -> (r: Instant) { unimplemented!() }
}
// ---- the shared representation is opaque here (aliasing; see Kani group timers_shared) ------------
// std::sync::Mutex stand-in: no specification at all - whatever goes through the lock is arbitrary here
#[verifier::external_body]
#[verifier::reject_recursive_types(T)]
pub struct Mutex<T> { p: core::marker::PhantomData<T> }
#[verifier::external_body]
#[verifier::reject_recursive_types(T)]
pub struct LockResult<T> { p: core::marker::PhantomData<T> }
#[verifier::external_body]
#[verifier::reject_recursive_types(T)]
pub struct MutexGuard<T> { p: core::marker::PhantomData<T> }
impl<T> Mutex<T> {
    #[verifier::external_body] pub fn new(t: T) -> Mutex<T> { unimplemented!() }
    #[verifier::external_body] pub fn lock(&self) -> LockResult<T> { unimplemented!() }
}
impl<T> LockResult<T> {
    #[verifier::external_body] pub fn expect(self, msg: &str) -> MutexGuard<T> { unimplemented!() }
}
impl<T> MutexGuard<Option<T>> {
    #[verifier::external_body] pub fn take(&mut self) -> Option<T> { unimplemented!() }
}
impl<T> core::ops::Deref for MutexGuard<T> {
    type Target = T;
    #[verifier::external_body] fn deref(&self) -> &T { unimplemented!() }
}
impl vstd::std_specs::ops::AddAssignSpecImpl<Duration> for SharedDuration {
    open spec fn obeys_add_assign_spec() -> bool { true }
    open spec fn add_assign_req(&self, rhs: Duration) -> bool { true }
    open spec fn add_assign_spec(&self, rhs: Duration) -> &SharedDuration { &shared_after(*self, rhs) }
}
pub uninterp spec fn shared_after(s: SharedDuration, rhs: Duration) -> SharedDuration;
impl core::ops::AddAssign<Duration> for SharedDuration {
    #[verifier::external_body] fn add_assign(&mut self, rhs: Duration) { unimplemented!() }
}
impl Clone for SharedDuration {
    #[verifier::external_body] fn clone(&self) -> SharedDuration { unimplemented!() }
}
pub trait CloseValue { type Closed; fn close(self) -> Self::Closed; }
pub open spec fn unwrap0(o: Option<Duration>) -> int { if o is Some { o->0.ns as int } else { 0 } }
'''

ITEMS = [
    dict(kind="struct", file=T, name="SharedDuration"),
    dict(kind="struct", file=T, name="MaybeGuardedDuration"),
    dict(kind="raw", label="abstract value of the exclusive representation", text="""
impl MaybeGuardedDuration {
    pub open spec fn excl(&self) -> bool { self is Exclusive }
    pub open spec fn val(&self) -> Option<Duration> { self->Exclusive_0 }
}
"""),
    dict(kind="struct", file=T, name="Timer"),
    dict(kind="struct", file=T, name="TimerGuard"),
    dict(kind="struct", file=T, name="Stopwatch"),
    dict(kind="fn", file=T, impl=r"^impl Default for MaybeGuardedDuration$", name="default", ret="r", label="MaybeGuardedDuration::default",
         ensures="r.excl() && r.val() is None,"),
    dict(kind="fn", file=T, impl=r"^impl MaybeGuardedDuration$", name="take", ret="r", label="MaybeGuardedDuration::take",
         ensures="""
            old(self).excl() ==> r == old(self).val() && final(self).excl() && final(self).val() is None,
         """),
    dict(kind="raw", label="contract of `+=` on the accumulated duration", text="""
// `total += span`: an absent total counts as zero; the span is added exactly once (C18)
impl vstd::std_specs::ops::AddAssignSpecImpl<Duration> for MaybeGuardedDuration {
    open spec fn obeys_add_assign_spec() -> bool { true }
    open spec fn add_assign_req(&self, rhs: Duration) -> bool { self.excl() ==> unwrap0(self.val()) + rhs.ns <= u128::MAX }
    open spec fn add_assign_spec(&self, rhs: Duration) -> &MaybeGuardedDuration {
        match *self {
            MaybeGuardedDuration::Exclusive(d) => &MaybeGuardedDuration::Exclusive(Some(Duration { ns: (unwrap0(d) + rhs.ns) as u128 })),
            MaybeGuardedDuration::Shared(s) => &MaybeGuardedDuration::Shared(shared_after(s, rhs)),
        }
    }
}
"""),
    dict(kind="fn", file=T, impl=r"^impl AddAssign < Duration > for MaybeGuardedDuration$", name="add_assign", label="MaybeGuardedDuration::add_assign",
         impl_header_override="impl core::ops::AddAssign<Duration> for MaybeGuardedDuration"),
    # ---------------- TimerGuard (borrowed guard) ----------------
    dict(kind="raw", label="guard abstraction", text="""
// the span a guard will contribute when it is dropped: what it already measured, else what the clock says now
pub open spec fn guard_has_span(start: Option<Instant>, self_time: Option<Duration>) -> bool { self_time is Some || start is Some }
pub open spec fn span_ok(start: Option<Instant>, self_time: Option<Duration>, r: Option<Duration>) -> bool {
    if self_time is Some { r == self_time }
    else if start is Some { r is Some && measured(start->0, r->0) && r->0.ns <= 0xFFFF_FFFF_FFFF_FFFF_FFFF }
    else { r is None }
}
"""),
    dict(kind="fn", file=T, impl=r"^impl TimerGuard < '_ >$", name="stop_ref", ret="r", label="TimerGuard::stop_ref",
         closures={1: dict(params="start: &Instant", ret="(d: Duration)", ensures="measured(*start, d), d.ns <= 0xFFFF_FFFF_FFFF_FFFF_FFFF,")},
         ensures="""
            // first stop reads the clock once and remembers the span; later stops return the remembered span (idempotent)
            span_ok(old(self).start, old(self).self_time, r),
            final(self).self_time == r, final(self).start == old(self).start,
            *final(self).timer == *old(self).timer,                                  // the stopwatch is not touched by stop
         """),
    dict(kind="fn", file=T, impl=r"^impl TimerGuard < '_ >$", name="overwrite", label="TimerGuard::overwrite",
         rules={}, 
         requires="self.timer.excl(),",
         proofs=[("end", "", "proof { assert(self.timer.excl() && self.timer.val() is None); /* OBL overwrite_clears_total_before_drop */ }")]),
    dict(kind="fn", file=T, impl=r"^impl TimerGuard < '_ >$", name="discard", label="TimerGuard::discard",
         rules={"R7": 1},
         proofs=[("end", "", "proof { assert(!guard_has_span(__s.start, __s.self_time)); /* OBL discard_forgets_span */ }")]),
    dict(kind="fn", file=T, impl=r"^impl Drop for TimerGuard < '_ >$", name="drop", label="TimerGuard::drop",
         impl_header_override="impl TimerGuard<'_>",
         requires="""
            old(self).timer.excl(),
            // stated bound: totals and spans stay far below the overflow point of Duration arithmetic
            unwrap0(old(self).timer.val()) <= 0xFFFF_FFFF_FFFF_FFFF_FFFF_FFFF_FFFF,
            old(self).self_time is Some ==> old(self).self_time->0.ns <= 0xFFFF_FFFF_FFFF_FFFF_FFFF,
         """,
         ensures="""
            // a guard with a span adds exactly that span to the total, once; a discarded guard adds nothing
            final(self).timer.excl(),
            guard_has_span(old(self).start, old(self).self_time) ==>
                final(self).timer.val() is Some && final(self).self_time is Some
                && span_ok(old(self).start, old(self).self_time, final(self).self_time)
                && final(self).timer.val()->0.ns == unwrap0(old(self).timer.val()) + final(self).self_time->0.ns,   // OBL drop_adds_span_once
            !guard_has_span(old(self).start, old(self).self_time) ==> final(self).timer.val() == old(self).timer.val(),  // OBL discarded_guard_adds_nothing
         """),
    # ---------------- Stopwatch ----------------
    dict(kind="fn", file=T, impl=r"^impl Stopwatch$", name="start", ret="g", label="Stopwatch::start",
         ensures="""
            // a fresh guard: running, nothing measured yet, attached to this stopwatch's total (which is unchanged)
            g.start is Some && g.self_time is None && *g.timer == old(self).duration,
         """),
    dict(kind="fn", file=T, impl=r"^impl Stopwatch$", name="clear", label="Stopwatch::clear",
         ensures="""
            old(self).duration.excl() ==> final(self).duration.excl() && final(self).duration.val() is None,
            final(self).start is None,
         """),
    dict(kind="fn", file=T, impl=r"^impl CloseValue for & '_ Stopwatch$", name="close", ret="r", label="<&Stopwatch>::close",
         closures={1: dict(params="start: &Instant", ret="(d: Duration)", ensures="measured(*start, d), d.ns <= 0xFFFF_FFFF_FFFF_FFFF_FFFF,")},
         impl_extra="    type Closed = Option<Duration>;\n",
         ensures="""
            // the reported duration is the accumulated total; absent if there is none (and no legacy start)
            (self.duration.excl() && self.duration.val() is Some) ==> r == self.duration.val(),
            (self.duration.excl() && self.duration.val() is None && self.start is None) ==> r is None,
         """),
    # ---------------- Timer ----------------
    dict(kind="fn", file=T, impl=r"^impl Timer$", name="stop", ret="r", label="Timer::stop",
         ensures="""
            // first stop fixes the duration (creation -> now); repeated stops change nothing
            old(self).duration is Some ==> r == old(self).duration->0 && *final(self) == *old(self),
            old(self).duration is None ==> measured(old(self).start, r) && final(self).duration == Some(r) && final(self).start == old(self).start,
         """),
    dict(kind="fn", file=T, impl=r"^impl CloseValue for & '_ Timer$", name="close", ret="r", label="<&Timer>::close",
         closures={1: dict(params="", ret="(d: Duration)", ensures="measured(self.start, d),")},
         impl_extra="    type Closed = Duration;\n",
         ensures="""
            self.duration is Some ==> r == self.duration->0,
            self.duration is None ==> measured(self.start, r),
         """),
]

POSTLUDE = r'''
// ---- histories: induction over operations -------------------------------------------------------
// Each real operation was verified above, from an arbitrary state, to act on the accumulated total as one of:
//   Add(span)        drop of a guard that has a span (TimerGuard::drop, OBL drop_adds_span_once)
//   Discard          discard() then drop (OBL discard_forgets_span + discarded_guard_adds_nothing)
//   Overwrite(span)  overwrite() = take() then drop (OBL overwrite_clears_total_before_drop, then Add on an absent total)
//   Clear            Stopwatch::clear
// (that a guard's destructor runs exactly once when it goes out of scope is Rust's semantics, assumed)
pub enum SwOp { Add(nat), Discard, Overwrite(nat), Clear }
pub open spec fn un0(a: Option<nat>) -> nat { if a is Some { a->0 } else { 0 } }
pub open spec fn sw_step(acc: Option<nat>, op: SwOp) -> Option<nat> {
    match op { SwOp::Add(s) => Some(un0(acc) + s), SwOp::Discard => acc, SwOp::Overwrite(s) => Some(s), SwOp::Clear => None }
}
pub open spec fn sw_run(acc: Option<nat>, ops: Seq<SwOp>) -> Option<nat> decreases ops.len() {
    if ops.len() == 0 { acc } else { sw_step(sw_run(acc, ops.drop_last()), ops.last()) }
}
// the property statement: index of the last clear / overwrite, and the sum of the non-discarded spans after it
pub open spec fn last_reset(ops: Seq<SwOp>) -> int decreases ops.len() {
    if ops.len() == 0 { -1 } else { match ops.last() { SwOp::Clear => ops.len() - 1, SwOp::Overwrite(_) => ops.len() - 1, _ => last_reset(ops.drop_last()) } }
}
pub open spec fn sum_after(ops: Seq<SwOp>, from: int) -> nat decreases ops.len() {
    if ops.len() == 0 || ops.len() - 1 < from { 0 } else {
        (match ops.last() { SwOp::Add(s) => s, SwOp::Overwrite(s) => s, _ => 0nat }) + sum_after(ops.drop_last(), from)
    }
}
pub open spec fn any_span_after(ops: Seq<SwOp>, from: int) -> bool {
    exists|i: int| from <= i < ops.len() && 0 <= i && (ops[i] is Add || ops[i] is Overwrite)
}
// C18: the reported duration equals the total of the completed guard spans that were not discarded since the
// last clear or overwrite, and is absent if there is none - for every history of operations, of any length
pub proof fn lemma_stopwatch_history(ops: Seq<SwOp>)
    ensures
        sw_run(None, ops) is Some <==> any_span_after(ops, last_reset(ops)),
        sw_run(None, ops) is Some ==> sw_run(None, ops)->0 == sum_after(ops, last_reset(ops)),
    decreases ops.len()
{
    if ops.len() > 0 {
        let p = ops.drop_last();
        lemma_stopwatch_history(p);
        lemma_last_reset_bounds(p);
        let lr = last_reset(ops);
        match ops.last() {
            SwOp::Clear => {
                assert(!any_span_after(ops, lr));
            }
            SwOp::Overwrite(s) => {
                assert(ops[ops.len() - 1] is Overwrite);
                assert(any_span_after(ops, lr));
                assert(sum_after(p, lr) == 0) by { lemma_sum_after_empty(p, lr); }
            }
            SwOp::Add(s) => {
                assert(ops[ops.len() - 1] is Add);
                assert(any_span_after(ops, lr));
                if !any_span_after(p, lr) { lemma_sum_zero(p, lr); }
            }
            SwOp::Discard => {
                if any_span_after(ops, lr) {
                    let i = choose|i: int| lr <= i < ops.len() && 0 <= i && (ops[i] is Add || ops[i] is Overwrite);
                    assert(i < p.len());
                    assert(p[i] == ops[i]);
                    assert(any_span_after(p, lr));
                }
                if any_span_after(p, lr) {
                    let i = choose|i: int| lr <= i < p.len() && 0 <= i && (p[i] is Add || p[i] is Overwrite);
                    assert(ops[i] == p[i]);
                }
            }
        }
        if ops.last() is Add {
            if any_span_after(p, lr) {
                let i = choose|i: int| lr <= i < p.len() && 0 <= i && (p[i] is Add || p[i] is Overwrite);
                assert(ops[i] == p[i]);
            }
        }
    } else {
        assert(!any_span_after(ops, last_reset(ops)));
    }
}
pub proof fn lemma_last_reset_bounds(ops: Seq<SwOp>)
    ensures -1 <= last_reset(ops) < ops.len(), last_reset(ops) >= 0 ==> (ops[last_reset(ops)] is Clear || ops[last_reset(ops)] is Overwrite),
    decreases ops.len()
{
    if ops.len() > 0 { lemma_last_reset_bounds(ops.drop_last()); }
}
pub proof fn lemma_sum_after_empty(ops: Seq<SwOp>, from: int)
    requires from >= ops.len(),
    ensures sum_after(ops, from) == 0,
{
}
pub proof fn lemma_sum_zero(ops: Seq<SwOp>, from: int)
    requires !any_span_after(ops, from), from >= -1,
    ensures sum_after(ops, from) == 0,
    decreases ops.len()
{
    if ops.len() > 0 && ops.len() - 1 >= from {
        let p = ops.drop_last();
        assert(!(ops[ops.len() - 1] is Add || ops[ops.len() - 1] is Overwrite));
        assert forall|i: int| from <= i < p.len() && 0 <= i implies !(p[i] is Add || p[i] is Overwrite) by { assert(p[i] == ops[i]); }
        lemma_sum_zero(p, from);
    }
}
'''
CANARY = dict(fn="Stopwatch::clear", replace=("final(self).start is None", "final(self).start is Some"))
