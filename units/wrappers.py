"""Unit `wrappers` (C15): the forwarding Entry / Value impls are transparent.
Extracted from metrique-writer-core/src/entry/merged.rs, entry/mod.rs, value/mod.rs and
metrique/src/lib.rs.  Trait-level contract: an entry appends exactly `items()` to the writer's log;
each wrapper's `items()` is DEFINED from the property statement (merged = first then second; reference /
Box / Arc = the inner entry; Option = inner or nothing), and the real `write` body must meet the trait
contract with that definition."""

NAME = "wrappers"
PROPERTIES = ["C15"]
MERGED = "metrique-writer-core/src/entry/merged.rs"
ENTRY = "metrique-writer-core/src/entry/mod.rs"
VALUE = "metrique-writer-core/src/value/mod.rs"
ROOT = "metrique/src/lib.rs"
INFL = "metrique-core/src/inflectable_entry_impls.rs"

def r24_empty_iter(text):
    """[].into_iter()  ->  verif_empty_iter()"""
    n = text.count("[].into_iter()")
    return text.replace("[].into_iter()", "verif_empty_iter()"), n


PRELUDE = r'''
use std::sync::Arc;
// what a format sees: the ordered sequence of timestamp / config / (name, value) items
pub enum Item { Timestamp(int), Config(int), Value(Seq<char>, int) }

pub trait EntryWriter<'a> {
    spec fn log(&self) -> Seq<Item>;
}
// R23: what `impl Iterator<Item = SampleGroupElement>` denotes: the (key, value) pairs it will yield, in order
#[verifier::external_body]
pub struct VerifIter { _p: u8 }
impl VerifIter {
    pub uninterp spec fn elems(&self) -> Seq<int>;
    // Iterator::chain: first all of self, then all of other
    #[verifier::external_body]
    pub fn chain(self, other: VerifIter) -> (r: VerifIter) ensures r.elems() == self.elems() + other.elems() { unimplemented!() }
}
// R24: `[].into_iter()` - the empty iterator
#[verifier::external_body]
pub fn verif_empty_iter() -> (r: VerifIter) ensures r.elems() == Seq::<int>::empty() { unimplemented!() }
// itertools::Either::{Left, Right} as an iterator: yields what the wrapped iterator yields
pub mod itertools { pub mod Either {
    use vstd::prelude::*;
    #[verifier::external_body]
    pub fn Left(i: super::super::VerifIter) -> (r: super::super::VerifIter) ensures r.elems() == i.elems() { unimplemented!() }
    #[verifier::external_body]
    pub fn Right(i: super::super::VerifIter) -> (r: super::super::VerifIter) ensures r.elems() == i.elems() { unimplemented!() }
}}
// std::borrow::Cow with its real two variants; whichever it is, it dereferences to ONE target value (`Deref for Cow`: `Borrowed(b) => b`,
// `Owned(o) => o.borrow()`, assumed); "holding an entry or value behind Cow" (C15) means that target's report
#[verifier::reject_recursive_types(T)]
pub enum Cow<'a, T: ?Sized + ToOwned + 'a> { Borrowed(&'a T), Owned(<T as ToOwned>::Owned) }
pub uninterp spec fn owned_target<T: ?Sized + ToOwned>(o: &<T as ToOwned>::Owned) -> &T;
impl<'a, T: ?Sized + ToOwned> Cow<'a, T> {
    pub open spec fn target(&self) -> &T { match self { Cow::Borrowed(b) => *b, Cow::Owned(o) => owned_target::<T>(o) } }
    // AsRef<T> for Cow / Borrow<T>: the same target (std, assumed)
    #[verifier::external_body]
    pub fn as_ref(&self) -> (r: &T) ensures r == self.target() { unimplemented!() }
}
impl<'a, T: ?Sized + ToOwned> core::ops::Deref for Cow<'a, T> {
    type Target = T;
    #[verifier::external_body]
    fn deref(&self) -> (r: &T) ensures r == self.target() { unimplemented!() }
}
pub trait Entry {
    spec fn items(&self) -> Seq<Item>;
    spec fn groups(&self) -> Seq<int>;
    // the contract every entry meets: it appends exactly its items, in order, and nothing else
    fn write<'a, VerifI0: EntryWriter<'a>>(&'a self, writer: &mut VerifI0)
        ensures final(writer).log() == old(writer).log() + self.items();
    // ... and its sample group is exactly groups(), in order
    fn sample_group(&self) -> (r: VerifIter)
        ensures r.elems() == self.groups();
}
// InflectableEntry (metrique-core): same contract, for closed #[metrics] structs
pub trait NameStyle {}
pub struct Identity {}
impl NameStyle for Identity {}
pub trait InflectableEntry<NS: NameStyle = Identity> {
    spec fn items(&self) -> Seq<Item>;
    spec fn groups(&self) -> Seq<int>;
    fn write<'a, VerifI0: EntryWriter<'a>>(&'a self, writer: &mut VerifI0)
        ensures final(writer).log() == old(writer).log() + self.items();
    fn sample_group(&self) -> (r: VerifIter)
        ensures r.elems() == self.groups();
}

// values: a ValueWriter is consumed by the one call that writes to it; `value_written(w, e)` is only
// established by the (assumed) contract of the value that consumed the writer
pub trait ValueWriter: Sized {}
pub uninterp spec fn value_written<W>(w: W, effect: int) -> bool;
pub trait Value {
    spec fn effect(&self) -> int;
    fn write<VerifI0: ValueWriter>(&self, writer: VerifI0)
        ensures value_written(writer, self.effect());
}
'''

FWD_ITEMS = "    open spec fn items(&self) -> Seq<Item> { (**self).items() }\n    open spec fn groups(&self) -> Seq<int> { (**self).groups() }\n"
COW_ITEMS = "    open spec fn items(&self) -> Seq<Item> { self.target().items() }\n    open spec fn groups(&self) -> Seq<int> { self.target().groups() }\n"
FWD_EFFECT = "    open spec fn effect(&self) -> int { (**self).effect() }\n"

ITEMS = [
    dict(kind="struct", file=MERGED, name="Merged", attrs=["#[verifier::reject_recursive_types(E1)]", "#[verifier::reject_recursive_types(E2)]"]),
    dict(kind="fn", file=MERGED, impl=r"^impl < E1 : Entry , E2 : Entry > Entry for Merged < E1 , E2 >$", name="write", impl_trait_args=True, rules={"R14": 1}, label="Merged::write",
         impl_extra="    // documented: the first entry's fields come first (globals first in merge_globals)\n"
                    "    open spec fn items(&self) -> Seq<Item> { self.0.items() + self.1.items() }\n"
                    "    // sample groups are preserved the same way: the first entry's, then the second's\n"
                    "    open spec fn groups(&self) -> Seq<int> { self.0.groups() + self.1.groups() }\n"),
    dict(kind="fn", file=MERGED, impl=r"^impl < E1 : Entry , E2 : Entry > Entry for Merged < E1 , E2 >$", name="sample_group", ret_iter="VerifIter", label="Merged::sample_group", rules={"R23": 1}),
    dict(kind="struct", file=MERGED, name="MergedRef"),
    dict(kind="fn", file=MERGED, impl=r"^impl < E1 : Entry \+ \? Sized , E2 : Entry \+ \? Sized > Entry for MergedRef < '_ , E1 , E2 >$", name="write", impl_trait_args=True, rules={"R14": 1}, label="MergedRef::write",
         impl_extra="    open spec fn items(&self) -> Seq<Item> { self.0.items() + self.1.items() }\n"
                    "    // sample groups are preserved the same way: the first entry's, then the second's\n"
                    "    open spec fn groups(&self) -> Seq<int> { self.0.groups() + self.1.groups() }\n"),
    dict(kind="fn", file=MERGED, impl=r"^impl < E1 : Entry \+ \? Sized , E2 : Entry \+ \? Sized > Entry for MergedRef < '_ , E1 , E2 >$", name="sample_group", ret_iter="VerifIter", label="MergedRef::sample_group", rules={"R23": 1}),
    dict(kind="fn", file=ENTRY, impl=r"^impl < T : Entry \+ \? Sized > Entry for & T$", name="write", impl_trait_args=True, rules={"R14": 1}, label="<&T as Entry>::write",
         impl_extra=FWD_ITEMS),
    dict(kind="fn", file=ENTRY, impl=r"^impl < T : Entry \+ \? Sized > Entry for & T$", name="sample_group", ret_iter="VerifIter", label="<&T as Entry>::sample_group", rules={"R23": 1}),
    dict(kind="fn", file=ENTRY, impl=r"^impl < T : Entry > Entry for Option < T >$", name="write", impl_trait_args=True, rules={"R14": 1}, label="<Option<T> as Entry>::write",
         impl_extra="    // an absent entry contributes nothing\n"
                    "    open spec fn items(&self) -> Seq<Item> { if self is Some { self->0.items() } else { Seq::<Item>::empty() } }\n"
                    "    open spec fn groups(&self) -> Seq<int> { if self is Some { self->0.groups() } else { Seq::<int>::empty() } }\n"),
    dict(kind="fn", file=ENTRY, impl=r"^impl < T : Entry > Entry for Option < T >$", name="sample_group", ret_iter="VerifIter", label="<Option<T> as Entry>::sample_group", rules={"R23": 1, "r24_empty_iter": 1}, extra_rewrites=[r24_empty_iter]),
    dict(kind="fn", file=ENTRY, impl=r"^impl < T : Entry \+ \? Sized > Entry for Box < T >$", name="write", impl_trait_args=True, rules={"R14": 1}, label="<Box<T> as Entry>::write",
         impl_extra=FWD_ITEMS),
    dict(kind="fn", file=ENTRY, impl=r"^impl < T : Entry \+ \? Sized > Entry for Box < T >$", name="sample_group", ret_iter="VerifIter", label="<Box<T> as Entry>::sample_group", rules={"R23": 1}),
    dict(kind="fn", file=ENTRY, impl=r"^impl < T : Entry \+ \? Sized > Entry for Arc < T >$", name="write", impl_trait_args=True, rules={"R14": 1}, label="<Arc<T> as Entry>::write",
         impl_extra=FWD_ITEMS),
    dict(kind="fn", file=ENTRY, impl=r"^impl < T : Entry \+ \? Sized > Entry for Arc < T >$", name="sample_group", ret_iter="VerifIter", label="<Arc<T> as Entry>::sample_group", rules={"R23": 1}),
    dict(kind="fn", file=ENTRY, impl=r"^impl < T : Entry \+ ToOwned \+ \? Sized > Entry for Cow < '_ , T >$", name="write", impl_trait_args=True, rules={"R14": 1}, label="<Cow<T> as Entry>::write",
         impl_extra=COW_ITEMS),
    dict(kind="fn", file=ENTRY, impl=r"^impl < T : Entry \+ ToOwned \+ \? Sized > Entry for Cow < '_ , T >$", name="sample_group", ret_iter="VerifIter", label="<Cow<T> as Entry>::sample_group", rules={"R23": 1}),
    dict(kind="struct", file=ROOT, name="RootEntry", attrs=["#[verifier::reject_recursive_types(M)]"]),
    dict(kind="fn", file=ROOT, impl=r"^impl < M : InflectableEntry > Entry for RootEntry < M >$", name="write", impl_trait_args=True, rules={"R14": 1}, label="RootEntry::write",
         impl_extra="    open spec fn items(&self) -> Seq<Item> { self.metric.items() }\n"
                    "    open spec fn groups(&self) -> Seq<int> { self.metric.groups() }\n"),
    dict(kind="fn", file=ROOT, impl=r"^impl < M : InflectableEntry > Entry for RootEntry < M >$", name="sample_group", ret_iter="VerifIter", label="RootEntry::sample_group", rules={"R23": 1}),
    # ---- InflectableEntry<NS> forwarding impls (metrique-core)
    dict(kind="fn", file=INFL, impl=r"^impl < NS : NameStyle , T : InflectableEntry < NS >> InflectableEntry < NS > for & T$", name="write", impl_trait_args=True, rules={"R14": 1}, label="<&T as InflectableEntry>::write",
         impl_extra=FWD_ITEMS),
    dict(kind="fn", file=INFL, impl=r"^impl < NS : NameStyle , T : InflectableEntry < NS >> InflectableEntry < NS > for & T$", name="sample_group", ret_iter="VerifIter", label="<&T as InflectableEntry>::sample_group", rules={"R23": 1}),
    dict(kind="fn", file=INFL, impl=r"^impl < NS : NameStyle , T : InflectableEntry < NS >> InflectableEntry < NS > for Option < T >$", name="write", impl_trait_args=True, rules={"R14": 1}, label="<Option<T> as InflectableEntry>::write",
         impl_extra="    open spec fn items(&self) -> Seq<Item> { if self is Some { self->0.items() } else { Seq::<Item>::empty() } }\n"
                    "    open spec fn groups(&self) -> Seq<int> { if self is Some { self->0.groups() } else { Seq::<int>::empty() } }\n"),
    dict(kind="fn", file=INFL, impl=r"^impl < NS : NameStyle , T : InflectableEntry < NS >> InflectableEntry < NS > for Option < T >$", name="sample_group", ret_iter="VerifIter", label="<Option<T> as InflectableEntry>::sample_group", rules={"R23": 1, "r24_empty_iter": 1}, extra_rewrites=[r24_empty_iter]),
    dict(kind="fn", file=INFL, impl=r"^impl < NS : NameStyle , T : InflectableEntry < NS > \+ \? Sized > InflectableEntry < NS > for Box < T >$", name="write", impl_trait_args=True, rules={"R14": 1}, label="<Box<T> as InflectableEntry>::write",
         impl_extra=FWD_ITEMS),
    dict(kind="fn", file=INFL, impl=r"^impl < NS : NameStyle , T : InflectableEntry < NS > \+ \? Sized > InflectableEntry < NS > for Box < T >$", name="sample_group", ret_iter="VerifIter", label="<Box<T> as InflectableEntry>::sample_group", rules={"R23": 1}),
    dict(kind="fn", file=INFL, impl=r"^impl < NS : NameStyle , T : InflectableEntry < NS > \+ \? Sized > InflectableEntry < NS > for Arc < T >$", name="write", impl_trait_args=True, rules={"R14": 1}, label="<Arc<T> as InflectableEntry>::write",
         impl_extra=FWD_ITEMS),
    dict(kind="fn", file=INFL, impl=r"^impl < NS : NameStyle , T : InflectableEntry < NS > \+ \? Sized > InflectableEntry < NS > for Arc < T >$", name="sample_group", ret_iter="VerifIter", label="<Arc<T> as InflectableEntry>::sample_group", rules={"R23": 1}),
    # ---- values
    dict(kind="fn", file=VALUE, impl=r"^impl < T : Value \+ \? Sized > Value for & T$", name="write", impl_trait_args=True, rules={"R14": 1}, label="<&T as Value>::write",
         impl_extra=FWD_EFFECT),
    dict(kind="fn", file=VALUE, impl=r"^impl < T : Value > Value for Box < T >$", name="write", impl_trait_args=True, rules={"R14": 1}, label="<Box<T> as Value>::write",
         impl_extra=FWD_EFFECT),
    dict(kind="fn", file=VALUE, impl=r"^impl < T : Value > Value for Arc < T >$", name="write", impl_trait_args=True, rules={"R14": 1}, label="<Arc<T> as Value>::write",
         impl_extra=FWD_EFFECT),
    dict(kind="fn", file=VALUE, impl=r"^impl < T : Value \+ ToOwned \+ \? Sized > Value for Cow < '_ , T >$", name="write", impl_trait_args=True, rules={"R14": 1}, label="<Cow<T> as Value>::write",
         impl_extra="    open spec fn effect(&self) -> int { self.target().effect() }\n"),
]

POSTLUDE = r'''
// composition lemma: wrappers nest transparently, e.g. Option<Box<Merged<&A, Arc<B>>>>
pub proof fn lemma_nested_wrappers<A: Entry, B: Entry>(a: &A, b: Arc<B>)
    ensures
        (Some(Box::new(Merged(a, b)))).items() == a.items() + b.items(),
        (None::<Box<Merged<&A, Arc<B>>>>).items() == Seq::<Item>::empty(),
{
}
'''
CANARY = dict(fn="Merged::write", field="impl_extra", replace=("{ self.0.items() + self.1.items() }", "{ self.1.items() + self.0.items() }"))
