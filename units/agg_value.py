"""Unit `agg_value` (C10): the per-field aggregation strategies of metrique-aggregation/src/value.rs.

Every strategy's `insert(accum, value)` is specified by a relation `inserted(old, value, new)` written from the property
statement (sum: new = old + value; keep-last: new = Some(value); option: an absent value changes nothing, a present one is
inserted by the inner strategy; by-reference copy: the copied value is inserted by the inner strategy; flatten: the nested
entry is merged; distribution: the value is added to the histogram), and the real body must establish it.  A lemma lifts the
step relation to any sequence of inputs (sum = fold, keep-last = last)."""

NAME = "agg_value"
PROPERTIES = ["C10"]
V = "metrique-aggregation/src/value.rs"

PRELUDE = r'''
use std::marker::PhantomData;
use std::ops::AddAssign;
use vstd::std_specs::ops::AddAssignSpec;
pub trait MetricValue {}
pub trait AggregateValue<T> {
    type Aggregated;
    // precondition of one insertion (sum: the addition does not overflow - the `+=` of the field type panics otherwise)
    spec fn insert_req(accum: &Self::Aggregated, value: T) -> bool;
    // what one insertion does
    spec fn inserted(old: Self::Aggregated, value: T, new: Self::Aggregated) -> bool;
    fn insert(accum: &mut Self::Aggregated, value: T)
        requires Self::insert_req(old(accum), value),
        ensures Self::inserted(*old(accum), value, *final(accum));
}
pub mod traits {
    use vstd::prelude::*;
    pub trait Merge: Sized {
        type Merged;
        spec fn merged(old: Self::Merged, input: Self, new: Self::Merged) -> bool;
        fn merge(accum: &mut Self::Merged, input: Self)
            ensures Self::merged(*old(accum), input, *final(accum));
    }
}
// Histogram<T, SortAndMerge>::add_value: its capture loop is verified in unit `hist`; here only "the value was added"
#[verifier::external_body]
#[verifier::reject_recursive_types(T)]
#[verifier::reject_recursive_types(S)]
pub struct Histogram<T, S> { _p: PhantomData<(T, S)> }
#[verifier::external_body] pub struct SortAndMerge { _p: u8 }
pub uninterp spec fn hist_added<T, S>(old: Histogram<T, S>, value: T, new: Histogram<T, S>) -> bool;
impl<T: MetricValue, S> Histogram<T, S> {
    #[verifier::external_body]
    pub fn add_value(&mut self, value: T) ensures hist_added(*old(self), value, *final(self)) { unimplemented!() }
}
'''

ITEMS = [
    dict(kind="struct", file=V, name="Sum"),
    dict(kind="fn", file=V, impl=r"^impl < T > AggregateValue < T > for Sum where", name="insert", label="Sum::insert",
         impl_extra="    type Aggregated = T;\n"
                    "    open spec fn insert_req(accum: &T, value: T) -> bool { accum.add_assign_req(value) }\n"
                    "    // summed fields: the new total is the old total plus the input\n"
                    "    open spec fn inserted(old: T, value: T, new: T) -> bool { T::obeys_add_assign_spec() ==> new == *(&old).add_assign_spec(value) }\n"),
    dict(kind="struct", file=V, name="KeepLast"),
    dict(kind="fn", file=V, impl=r"^impl < T : Clone > AggregateValue < T > for KeepLast$", name="insert", label="KeepLast::insert",
         impl_extra="    type Aggregated = Option<T>;\n"
                    "    open spec fn insert_req(accum: &Option<T>, value: T) -> bool { true }\n"
                    "    // keep-last fields: the aggregate is the last input\n"
                    "    open spec fn inserted(old: Option<T>, value: T, new: Option<T>) -> bool { new == Some(value) }\n"),
    dict(kind="struct", file=V, name="MergeOptions", attrs=["#[verifier::reject_recursive_types(Inner)]"]),
    dict(kind="fn", file=V, impl=r"^impl < T , S > AggregateValue < Option < T >> for MergeOptions < S > where", name="insert", label="MergeOptions::insert",
         impl_extra="    type Aggregated = S::Aggregated;\n"
                    "    open spec fn insert_req(accum: &S::Aggregated, value: Option<T>) -> bool { value is Some ==> S::insert_req(accum, value->0) }\n"
                    "    // an absent value contributes nothing; a present one is inserted by the inner strategy\n"
                    "    open spec fn inserted(old: S::Aggregated, value: Option<T>, new: S::Aggregated) -> bool {\n"
                    "        match value { Some(v) => S::inserted(old, v, new), None => new == old }\n"
                    "    }\n"),
    dict(kind="struct", file=V, name="CopyWrapper", attrs=["#[verifier::reject_recursive_types(Inner)]"]),
    dict(kind="fn", file=V, impl=r"^impl < 'a , T , S > AggregateValue < & 'a T > for CopyWrapper < S > where", name="insert", label="CopyWrapper::insert",
         impl_extra="    type Aggregated = S::Aggregated;\n"
                    "    open spec fn insert_req(accum: &S::Aggregated, value: &'a T) -> bool { S::insert_req(accum, *value) }\n"
                    "    open spec fn inserted(old: S::Aggregated, value: &'a T, new: S::Aggregated) -> bool { S::inserted(old, *value, new) }\n"),
    dict(kind="struct", file=V, name="Flatten"),
    dict(kind="fn", file=V, impl=r"^impl < T > AggregateValue < T > for Flatten where", name="insert", label="Flatten::insert",
         impl_header_override="impl<T> AggregateValue<T> for Flatten where T: traits::Merge,",
         impl_extra="    type Aggregated = T::Merged;\n"
                    "    open spec fn insert_req(accum: &T::Merged, value: T) -> bool { true }\n"
                    "    open spec fn inserted(old: T::Merged, value: T, new: T::Merged) -> bool { T::merged(old, value, new) }\n"),
    dict(kind="struct", file=V, name="Distribution"),
    dict(kind="fn", file=V, impl=r"^impl < T : MetricValue > AggregateValue < T > for Distribution$", name="insert", label="Distribution::insert",
         impl_extra="    type Aggregated = Histogram<T, SortAndMerge>;\n"
                    "    open spec fn insert_req(accum: &Histogram<T, SortAndMerge>, value: T) -> bool { true }\n"
                    "    // distribution fields: the input is added to the histogram (what add_value records: unit hist)\n"
                    "    open spec fn inserted(old: Histogram<T, SortAndMerge>, value: T, new: Histogram<T, SortAndMerge>) -> bool { hist_added(old, value, new) }\n"),
]

POSTLUDE = r'''
// ---- from one step to any input sequence (u64 sums as the concrete instance of "summed fields equal the sum of the inputs") ----
pub open spec fn sum_of(s: Seq<u64>) -> int decreases s.len() { if s.len() == 0 { 0 } else { sum_of(s.drop_last()) + s.last() as int } }
// states[i] is the aggregate after the first i inputs
pub open spec fn sum_chain(states: Seq<u64>, inputs: Seq<u64>) -> bool {
    states.len() == inputs.len() + 1 && forall|i: int| 0 <= i < inputs.len() ==> #[trigger] states[i + 1] as int == states[i] as int + inputs[i] as int
}
pub proof fn lemma_sum_is_sum_of_inputs(states: Seq<u64>, inputs: Seq<u64>)
    requires sum_chain(states, inputs),
    ensures states.last() as int == states[0] as int + sum_of(inputs),
    decreases inputs.len()
{
    if inputs.len() > 0 {
        let s2 = states.drop_last(); let i2 = inputs.drop_last();
        assert(sum_chain(s2, i2)) by {
            assert forall|i: int| 0 <= i < i2.len() implies #[trigger] s2[i + 1] as int == s2[i] as int + i2[i] as int by { assert(states[i + 1] as int == states[i] as int + inputs[i] as int); }
        }
        lemma_sum_is_sum_of_inputs(s2, i2);
        assert(states[inputs.len() as int - 1 + 1] as int == states[inputs.len() as int - 1] as int + inputs[inputs.len() as int - 1] as int);
    }
}
// keep-last: after any non-empty sequence of KeepLast steps the aggregate is the last input
pub proof fn lemma_keep_last<T>(states: Seq<Option<T>>, inputs: Seq<T>)
    requires states.len() == inputs.len() + 1, inputs.len() > 0,
             forall|i: int| 0 <= i < inputs.len() ==> #[trigger] states[i + 1] == Some(inputs[i]),
    ensures states.last() == Some(inputs.last()),
{
    assert(states[inputs.len() as int - 1 + 1] == Some(inputs[inputs.len() as int - 1]));
}
'''
CANARY = dict(fn="KeepLast::insert", field="impl_extra", replace=("{ new == Some(value) }", "{ new == old }"))
