"""Unit `emf_value` (C02, C03, C14): the metric-value fragment of the EMF formatter, extracted from
metrique-writer-format-emf/src/emf.rs: write_observation, write_metric_value, write_metric
(rewrites R1 drop-log, R2 rate-limit, R3 for-chain, R6 bool-or-assign).

Buffers are viewed as token sequences (trusted view of PrefixedStringBuf, buf.rs): the contracts
say which tokens each function appends, so comma placement, truncate-on-skip, "NaN never
written", aligned Values/Counts and the metric declaration are postconditions."""

NAME = "emf_value"
PROPERTIES = ["C02", "C03", "C14"]
EMF = "metrique-writer-format-emf/src/emf.rs"
CORE_VALUE = "metrique-writer-core/src/value/mod.rs"

OUTER = "use vstd::std_specs::ops::{DivSpec, MulSpec};\nuse vstd::string::StringSliceAdditionalSpecFns;\n"

PRELUDE = r'''
// =============================== trusted view of PrefixedStringBuf ===============================
// A buffer is a sequence of atomic, non-empty tokens.  (buf.rs: six one-line wrappers over String.)
pub mod tok_axioms {
    use vstd::prelude::*;
    pub enum Tok {
        Ch(char),            // push(c)
        Int(int),            // push_integer(v): itoa decimal numeral of v
        Flt(f64),            // write_float(v): dtoa numeral of the finite double v
        JStr(Seq<char>),     // json_string(s): s as a quoted, escaped JSON string (serde_json)
        Atom(int),           // an element of str_toks(..): text pushed with push_raw_str
    }
    // the token view of a &str pushed verbatim (literal fragments, or another buffer's as_str())
    pub uninterp spec fn str_toks(s: &str) -> Seq<Tok>;
    // byte length of one token: every token is at least one byte long
    pub uninterp spec fn tok_len(t: Tok) -> nat;
    pub broadcast axiom fn axiom_tok_len_pos(t: Tok) ensures #[trigger] tok_len(t) >= 1;
    
}
pub use tok_axioms::*;
pub open spec fn blen(s: Seq<Tok>) -> nat decreases s.len() {
    if s.len() == 0 { 0 } else { blen(s.drop_last()) + tok_len(s.last()) }
}
pub open spec fn is_num(t: Tok) -> bool { t is Int || t is Flt }

#[verifier::external_body]
pub struct PrefixedStringBuf { b: String }
impl PrefixedStringBuf {
    pub uninterp spec fn all(&self) -> Seq<Tok>;       // whole buffer, prefix included
    pub uninterp spec fn prefix_n(&self) -> nat;       // number of tokens of the fixed prefix
    pub open spec fn wf(&self) -> bool { self.prefix_n() <= self.all().len() }
    pub open spec fn body(&self) -> Seq<Tok> { self.all().skip(self.prefix_n() as int) }

    #[verifier::external_body]
    pub fn is_empty(&self) -> (r: bool)
        ensures r == (self.all().len() == self.prefix_n()),
    { unimplemented!() }

    #[verifier::external_body]
    pub fn clear(&mut self)
        requires old(self).wf(),
        ensures final(self).all() == old(self).all().take(old(self).prefix_n() as int),
                final(self).prefix_n() == old(self).prefix_n(),
    { unimplemented!() }

    #[verifier::external_body]
    pub fn push(&mut self, c: char) -> (r: &mut Self)
        ensures final(r).all() == final(self).all(), final(r).prefix_n() == final(self).prefix_n(),
                r.all() == old(self).all().push(Tok::Ch(c)), r.prefix_n() == old(self).prefix_n(),
    { unimplemented!() }

    #[verifier::external_body]
    pub fn push_raw_str<'a>(&'a mut self, s: &str) -> (r: &'a mut Self)
        ensures final(r).all() == final(self).all(), final(r).prefix_n() == final(self).prefix_n(),
                r.all() == old(self).all() + str_toks(s), r.prefix_n() == old(self).prefix_n(),
    { unimplemented!() }

    #[verifier::external_body]
    pub fn push_integer(&mut self, s: impl itoa::Integer) -> (r: &mut Self)
        ensures final(r).all() == final(self).all(), final(r).prefix_n() == final(self).prefix_n(),
                r.all() == old(self).all().push(Tok::Int(s.ival())), r.prefix_n() == old(self).prefix_n(),
    { unimplemented!() }

    #[verifier::external_body]
    pub fn json_string(&mut self, value: &str) -> (r: &mut Self)
        ensures final(r).all() == final(self).all(), final(r).prefix_n() == final(self).prefix_n(),
                r.all() == old(self).all().push(Tok::JStr(value@)), r.prefix_n() == old(self).prefix_n(),
    { unimplemented!() }

    #[verifier::external_body]
    pub fn as_str(&self) -> (r: &str)
        ensures str_toks(r) == self.all(), r.spec_bytes().len() == blen(self.all()), blen(self.all()) <= usize::MAX,
    { unimplemented!() }

    // truncate cuts on a token boundary (the only call site passes a length obtained from
    // as_str().len() of an earlier state of the same buffer).  `assert!(combined_len >= prefix_len)`
    // in the real body is the first precondition.
    #[verifier::external_body]
    pub fn truncate(&mut self, combined_len: usize)
        requires
            exists|k: int| old(self).prefix_n() <= k <= old(self).all().len()
                && #[trigger] blen(old(self).all().take(k)) == combined_len,
        ensures
            // the cut with that byte length is unique (lemma_cut_unique, proved below), so this
            // universally quantified form says no more than "the buffer is cut at that length"
            forall|k: int| old(self).prefix_n() <= k <= old(self).all().len()
                && #[trigger] blen(old(self).all().take(k)) == combined_len
                ==> final(self).all() == old(self).all().take(k),
            final(self).prefix_n() == old(self).prefix_n(),
    { unimplemented!() }
}

pub mod itoa {
    use vstd::prelude::*;
    use super::{Tok, str_toks};
    pub trait Integer: Sized { spec fn ival(&self) -> int; }
    impl Integer for u64 { open spec fn ival(&self) -> int { *self as int } }
    impl Integer for u128 { open spec fn ival(&self) -> int { *self as int } }
    // itoa::Buffer::format: the decimal numeral of v
    #[verifier::external_body] pub struct Buffer { p: u8 }
    impl Buffer {
        #[verifier::external_body] pub fn new() -> Buffer { unimplemented!() }
        #[verifier::external_body]
        pub fn format<I: Integer>(&mut self, v: I) -> (r: &str) ensures str_toks(r) == seq![Tok::Int(v.ival())] { unimplemented!() }
    }
}

// =============================== assumed: floats ===============================================
// Rust float arithmetic never panics (vstd leaves the preconditions of `/` and `*` uninterpreted).
pub mod float_axioms {
    use vstd::prelude::*;
    use vstd::std_specs::ops::{DivSpec, MulSpec};
    pub broadcast axiom fn axiom_f64_div_req(a: f64, b: f64) ensures #[trigger] a.div_req(b);
    pub broadcast axiom fn axiom_f64_mul_req(a: f64, b: f64) ensures #[trigger] a.mul_req(b);
}
broadcast use {float_axioms::axiom_f64_div_req, float_axioms::axiom_f64_mul_req, tok_axioms::axiom_tok_len_pos};

pub uninterp spec fn f64_finite(v: f64) -> bool;       // v.is_finite()
pub uninterp spec fn f64_nan(v: f64) -> bool;          // v.is_nan()
pub uninterp spec fn f64_clamped(v: f64) -> f64;       // v.clamp(-f64::MAX, f64::MAX)
pub uninterp spec fn u64_to_f64(v: u64) -> f64;        // v as f64
pub uninterp spec fn f64_div(a: f64, b: f64) -> f64;   // a / b

// clamp_to_finite: contract PROVED BY KANI on the real function for all 2^64 doubles
// (kani/emf.rs::check_clamp_to_finite); assumed here with the same text.
#[verifier::external_body]
pub fn clamp_to_finite(float: f64, name_for_log: &str) -> (r: Option<FiniteFloat>)
    ensures
        r is None <==> f64_nan(float),
        r is Some ==> f64_finite((r->0).0) && (r->0).0 == f64_clamped(float),
{ unimplemented!() }

pub uninterp spec fn verif_nondet_bool_spec() -> bool;
#[verifier::external_body]
pub fn verif_nondet_bool() -> (r: bool) { unimplemented!() }

// =============================== assumed: core types used by write_metric =======================
// Stand-in for metrique_writer_core::unit::Unit: only `== Unit::None` and name() are used here.
#[derive(Structural, Clone, Copy, PartialEq, Eq)]
pub enum Unit { None, Other(u8) }
impl Unit {
    pub uninterp spec fn spec_name(&self) -> &'static str;
    #[verifier::external_body]
    pub fn name(&self) -> (r: &'static str) ensures r == self.spec_name() { unimplemented!() }
}
#[verifier::external_body]
pub struct MetricFlags<'a> { p: core::marker::PhantomData<&'a ()> }
impl<'a> MetricFlags<'a> {
    pub uninterp spec fn emf_options(&self) -> Option<EmfOptions>;
    #[verifier::external_body]
    pub fn downcast(&self) -> (r: Option<&'a EmfOptions>)
        ensures (r is None) == (self.emf_options() is None), r is Some ==> *r->0 == self.emf_options()->0,
    { unimplemented!() }
}
pub struct ValidationError { pub x: u8 }
pub struct ValueWriter<'a, 'e> { pub p: core::marker::PhantomData<(&'a (), &'e ())> }

// what one observation contributes: value token v and count token c (C03: counts = occurrences x multiplicity,
// saturating; float VALUES are uninterpreted in Verus - the numeric claims are Kani's)
pub open spec fn mult_of(multiplicity: Option<u64>) -> int { if multiplicity is Some { multiplicity->0 as int } else { 1 } }
pub open spec fn sat_mul_u64(a: int, b: int) -> int { if a * b > u64::MAX { u64::MAX as int } else { a * b } }
pub open spec fn obs_tokens(o: Observation, multiplicity: Option<u64>, v: Tok, c: Tok) -> bool {
    match o {
        Observation::Unsigned(x) => v == Tok::Int(x as int) && c == Tok::Int(mult_of(multiplicity)),
        Observation::Floating(x) => v is Flt && f64_finite(v->Flt_0) && v->Flt_0 == f64_clamped(x) && c == Tok::Int(mult_of(multiplicity)),
        Observation::Repeated { total, occurrences } =>
            v is Flt && f64_finite(v->Flt_0) && c == Tok::Int(sat_mul_u64(occurrences as int, mult_of(multiplicity))),
    }
}
pub open spec fn pushed_one(old: Seq<Tok>, new: Seq<Tok>) -> bool { new.len() == old.len() + 1 && new.drop_last() =~= old }
// =============================== grammar of one metric value ====================================
// NUM (',' NUM)^(k-1), k >= 1: odd length, numeric tokens at even positions, commas at odd ones.
pub open spec fn num_list(t: Seq<Tok>) -> bool {
    t.len() % 2 == 1
    && (forall|i: int| 0 <= i < t.len() && i % 2 == 0 ==> is_num(#[trigger] t[i]))
    && (forall|i: int| 0 <= i < t.len() && i % 2 == 1 ==> #[trigger] t[i] == Tok::Ch(','))
}
pub open spec fn name_head(name: &str) -> Seq<Tok> {
    seq![Tok::Ch(','), Tok::JStr(name@), Tok::Ch(':')]
}
// the tokens appended to fields_buf by one successful write_metric_value
pub open spec fn wf_value(delta: Seq<Tok>, name: &str, counts_prefix: Seq<Tok>) -> bool {
    ||| (delta.len() == 4 && delta.take(3) =~= name_head(name) && is_num(delta[3]))
    ||| (exists|vals: Seq<Tok>, cnts: Seq<Tok>|
            num_list(vals) && num_list(cnts) && vals.len() == cnts.len()
            && #[trigger] wf_dist(delta, name, counts_prefix, vals, cnts))
}
pub open spec fn wf_dist(delta: Seq<Tok>, name: &str, counts_prefix: Seq<Tok>, vals: Seq<Tok>, cnts: Seq<Tok>) -> bool {
    delta == name_head(name) + str_toks("{\"Values\":[") + vals + counts_prefix + cnts + str_toks("]}")
}

// the declaration appended to metrics_buf for one emitted metric (C03: Name, Unit iff not None, StorageResolution)
pub open spec fn metric_decl(first: bool, name: &str, unit: Unit, opts: Option<EmfOptions>) -> Seq<Tok> {
    if opts is Some && opts->0.storage_mode is NoMetric { Seq::<Tok>::empty() } else {
        (if first { Seq::<Tok>::empty() } else { seq![Tok::Ch(',')] })
        + str_toks("{\"Name\":") + seq![Tok::JStr(name@)]
        + (if unit != Unit::None { str_toks(",\"Unit\":") + seq![Tok::JStr(unit.spec_name()@)] } else { Seq::<Tok>::empty() })
        + (if opts is Some && opts->0.storage_mode is HighStorageResolution { str_toks(",\"StorageResolution\":1}") } else { seq![Tok::Ch('}')] })
    }
}
// ---- lemmas ----
pub proof fn lemma_blen_take_mono(s: Seq<Tok>, i: int, j: int)
    requires 0 <= i <= j <= s.len(),
    ensures blen(s.take(i)) <= blen(s.take(j)), i < j ==> blen(s.take(i)) < blen(s.take(j)),
    decreases j - i
{
    if i < j {
        lemma_blen_take_mono(s, i, j - 1);
        assert(s.take(j).drop_last() =~= s.take(j - 1));
        assert(s.take(j).last() == s[j - 1]);
        axiom_tok_len_pos(s[j - 1]);
    }
}
// two cuts of the same buffer with the same byte length are the same cut
pub proof fn lemma_cut_unique(s: Seq<Tok>, i: int, j: int)
    requires 0 <= i <= s.len(), 0 <= j <= s.len(), blen(s.take(i)) == blen(s.take(j)),
    ensures i == j,
{
    if i < j { lemma_blen_take_mono(s, i, j); }
    if j < i { lemma_blen_take_mono(s, j, i); }
}
'''

# ghost bookkeeping for the observation loop: `vals` / `cnts` are what has been appended since the
# "{"Values":[" literal / since counts.clear(); `wrote` <=> the last token is a number.
LOOP_INV = """
    invariant
        counts.prefix_n() == verif_cp.len(), counts.prefix_n() == old(counts_buf).prefix_n(),
        verif_cp =~= old(counts_buf).all().take(old(counts_buf).prefix_n() as int),
        buf.prefix_n() == old(fields_buf).prefix_n(), buf.prefix_n() <= verif_b0.len(),
        verif_base.is_prefix_of(buf.all()), verif_cp.is_prefix_of(counts.all()),
        verif_base =~= verif_b0 + name_head(name) + str_toks("{\\"Values\\":["),
        verif_b0 == old(fields_buf).all(),
        buf.all().len() - verif_base.len() == counts.all().len() - verif_cp.len(),
        // nothing written yet, or a proper comma-separated list of numerals in both buffers
        wrote_anything ==> num_list(buf.all().skip(verif_base.len() as int)) && num_list(counts.all().skip(verif_cp.len() as int)),
        !wrote_anything ==> buf.all().len() == verif_base.len(),
"""

ITEMS = [
    dict(kind="struct", file=CORE_VALUE, name="Observation"),
    dict(kind="struct", file=EMF, name="FiniteFloat"),
    dict(kind="struct", file=EMF, name="MetricSkipped"),
    dict(kind="struct", file=EMF, name="StorageMode", keep_derive=False),
    dict(kind="struct", file=EMF, name="EmfOptions"),
    # write_float: body not verified (dtoa + str::strip_suffix are outside Verus); trusted contract
    dict(kind="raw", label="write_float(trusted)", text="""
impl ValueWriter<'_, '_> {
    // ASSUMED contract of the real write_float (emf.rs): appends exactly one numeral token for a
    // finite double; its `assert!(v.0.is_finite())` is the precondition proved at both call sites.
    #[verifier::external_body]
    fn write_float(buf: &mut PrefixedStringBuf, v: FiniteFloat)
        requires f64_finite(v.0),
        ensures final(buf).all() == old(buf).all().push(Tok::Flt(v.0)), final(buf).prefix_n() == old(buf).prefix_n(),
    { unimplemented!() }
}
"""),
    dict(kind="fn", file=EMF, impl=r"^impl ValueWriter < '_ , '_ >$", name="write_observation", ret="r",
         rules={"R1": 1, "R2": 1},
         ensures="""
            final(buf).prefix_n() == old(buf).prefix_n(), final(counts).prefix_n() == old(counts).prefix_n(),
            // skipped: nothing at all is written
            r is Err ==> final(buf).all() == old(buf).all() && final(counts).all() == old(counts).all(),
            // written: exactly one numeral to each buffer
            r is Ok ==> pushed_one(old(buf).all(), final(buf).all()) && pushed_one(old(counts).all(), final(counts).all())
                        && is_num(final(buf).all().last()) && is_num(final(counts).all().last())
                        && obs_tokens(observation, multiplicity, final(buf).all().last(), final(counts).all().last()),
            // an unsigned observation is never skipped; a float is skipped exactly when it is NaN
            observation is Unsigned ==> r is Ok,
            observation is Floating ==> ((r is Err) == f64_nan(observation->Floating_0)),
         """),
    dict(kind="fn", file=EMF, impl=r"^impl ValueWriter < '_ , '_ >$", name="write_metric_value", ret="r",
         attrs=["#[verifier::exec_allows_no_decreases_clause]"],
         rules={"R3": 1, "R6": 2},
         requires="""
            counts_buf.wf(), fields_buf.wf(),
         """,
         ensures="""
            final(fields_buf).prefix_n() == old(fields_buf).prefix_n(),
            final(counts_buf).prefix_n() == old(counts_buf).prefix_n(),
            // fields_buf only grows, and what is appended starts with `,"name":`
            old(fields_buf).all().is_prefix_of(final(fields_buf).all()),
            final(fields_buf).all().len() >= old(fields_buf).all().len() + 3,
            final(fields_buf).all().subrange(old(fields_buf).all().len() as int, old(fields_buf).all().len() as int + 3) =~= name_head(name),
            // success: the appended tokens are one well-formed value (a number, or aligned, non-empty,
            // properly comma-separated Values/Counts lists)
            r is Ok ==> wf_value(final(fields_buf).all().skip(old(fields_buf).all().len() as int), name,
                                 old(counts_buf).all().take(old(counts_buf).prefix_n() as int)),
            // the counts scratch buffer is handed back empty (C14: nothing leaks into the next metric)
            final(counts_buf).all().len() == final(counts_buf).prefix_n() || final(counts_buf).all() == old(counts_buf).all(),
         """,
         loops={1: LOOP_INV},
         proofs=[
             ("after", "let buf : & mut PrefixedStringBuf = fields_buf ;",
              "let ghost verif_b0 = buf.all();"),
             ("before", "let mut wrote =",
              """let ghost verif_base = buf.all(); let ghost verif_cp = counts.all();
                 proof { assert(verif_base =~= verif_b0 + name_head(name) + str_toks("{\\"Values\\":[")); }"""),
             ("after", 'buf . push_raw_str ( "]}" ) ;',
              """proof {
                    let vals = verif_mid.skip(verif_base.len() as int);
                    let cnts = verif_cmid.skip(verif_cp.len() as int);
                    let delta = buf.all().skip(verif_b0.len() as int);
                    assert(verif_mid =~= verif_base + vals);
                    assert(verif_cmid =~= verif_cp + cnts);
                    assert(delta =~= name_head(name) + str_toks("{\\"Values\\":[") + vals + verif_cp + cnts + str_toks("]}"));
                    if wrote_anything { assert(wf_dist(delta, name, verif_cp, vals, cnts)); }
                    assert(verif_b0.is_prefix_of(buf.all()));
                    assert(buf.all().subrange(verif_b0.len() as int, verif_b0.len() as int + 3) =~= name_head(name));
                 }"""),
             # hints for the truncate-on-skip of one observation (optional: they help the call they are attached to)
             ("before", "buf . truncate ( buf_index ) ;", "proof { assert(buf.all().take(verif_bk0.len() as int) =~= verif_bk0); assert(blen(buf.all().take(verif_bk0.len() as int)) == buf_index); }", None, True),
             ("before", "counts . truncate ( counts_index ) ;", "proof { assert(counts.all().take(verif_ck0.len() as int) =~= verif_ck0); assert(blen(counts.all().take(verif_ck0.len() as int)) == counts_index); }", None, True),
             ("after", "Some ( observation ) => {",
              "let ghost verif_wa = wrote_anything; let ghost verif_bk0 = buf.all(); let ghost verif_ck0 = counts.all();"),
             ("before", "wrote_anything = wrote_anything || wrote ;",
              """proof { if wrote {
                    lemma_num_list_step(verif_base, verif_bk0, buf.all(), verif_wa);
                    lemma_num_list_step(verif_cp, verif_ck0, counts.all(), verif_wa);
                 } }""", 1),
             ("before", "buf . push_raw_str ( counts . as_str ( ) ) ;",
              "let ghost verif_mid = buf.all(); let ghost verif_cmid = counts.all();"),
         ]),
    dict(kind="fn", file=EMF, impl=r"^impl ValueWriter < '_ , '_ >$", name="write_metric", ret="r",
         requires="""
            counts_buf.wf(), fields_buf.wf(), metrics_buf.wf(),
         """,
         ensures="""
            r is Ok,
            final(fields_buf).prefix_n() == old(fields_buf).prefix_n(),
            final(counts_buf).prefix_n() == old(counts_buf).prefix_n(),
            final(metrics_buf).prefix_n() == old(metrics_buf).prefix_n(),
            // either the metric is skipped entirely (no observation / only NaN): no trace of it in any buffer
            // (truncate restores fields_buf exactly), or exactly one well-formed value was appended
            (final(fields_buf).all() == old(fields_buf).all() && final(metrics_buf).all() == old(metrics_buf).all())
            || (old(fields_buf).all().is_prefix_of(final(fields_buf).all())
                && wf_value(final(fields_buf).all().skip(old(fields_buf).all().len() as int), name,
                            old(counts_buf).all().take(old(counts_buf).prefix_n() as int))
                && final(metrics_buf).all() == old(metrics_buf).all()
                     + metric_decl(old(metrics_buf).all().len() == old(metrics_buf).prefix_n(), name, unit, flags.emf_options())),
         """,
         proofs=[
             ("before", "let fields_buf_index", "let ghost verif_f0 = fields_buf.all();"),
             ("before", "fields_buf . truncate ( fields_buf_index ) ;",
              "proof { assert(fields_buf.all().take(verif_f0.len() as int) =~= verif_f0); assert(blen(fields_buf.all().take(verif_f0.len() as int)) == fields_buf_index); }", None, True),
         ]),
]

POSTLUDE = r'''
// one more numeral (preceded by a comma iff something was there) keeps a numeral list a numeral list
pub proof fn lemma_num_list_step(base: Seq<Tok>, before: Seq<Tok>, after: Seq<Tok>, had: bool)
    requires
        base.is_prefix_of(before),
        had ==> num_list(before.skip(base.len() as int)),
        !had ==> before.len() == base.len(),
        after.len() > 0, is_num(after.last()),
        had ==> after =~= before.push(Tok::Ch(',')).push(after.last()),
        !had ==> after =~= before.push(after.last()),
    ensures
        num_list(after.skip(base.len() as int)), base.is_prefix_of(after),
        after.len() - before.len() == (if had { 2int } else { 1int }),
{
    let b = before.skip(base.len() as int);
    let a = after.skip(base.len() as int);
    if had {
        assert(a =~= b.push(Tok::Ch(',')).push(after.last()));
        assert forall|i: int| 0 <= i < a.len() && i % 2 == 0 implies is_num(#[trigger] a[i]) by {
            if i < b.len() { assert(a[i] == b[i]); }
        }
        assert forall|i: int| 0 <= i < a.len() && i % 2 == 1 implies #[trigger] a[i] == Tok::Ch(',') by {
            if i < b.len() { assert(a[i] == b[i]); }
        }
    } else {
        assert(a =~= seq![after.last()]);
    }
}
'''

CANARY = dict(fn="write_metric", replace=("r is Ok,", "r is Err,"))
