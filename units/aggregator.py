"""Unit `aggregator` (C10, embedded / keyed aggregator only; type-level deviation: the stand-in trait `Key` declares its
generic associated type `Key<'a>` as `'static`, because this Verus' lifetime pass forgets the `'static` argument of
`Key<'static>` in the real signatures and would otherwise reject them (E0309); lifetimes have no logical content): KeyedAggregator::get_or_create_accum, merge,
merge_ref and flush, extracted from metrique-aggregation/src/aggregator.rs.

Contract (from the property statement): each merged input contributes to exactly one aggregate, the one selected
by its key - the aggregate under that key gets the input appended to its (ghost) input log, it is created empty
on first use under the key the input itself yields, and every other aggregate is untouched; a flush emits one
result per key carrying that key's aggregate, and empties the storage.
Trusted: hashbrown's raw-entry API and drain as a ghost map keyed by the key's abstract text; the generated
Merge / Key impls meet the trait contracts (they are produced by a proc macro: C07/C10 anchors, not verified)."""

NAME = "aggregator"
PROPERTIES = ["C10"]
AGG = "metrique-aggregation/src/aggregator.rs"
TR = "metrique-aggregation/src/traits.rs"

PRELUDE = r'''
use std::marker::PhantomData;
// abstract text of a key value (what Hash + Eq / static_key_matches compare)
pub mod keytext { use vstd::prelude::*; pub uninterp spec fn kv<K>(k: K) -> Seq<char>; }
pub use keytext::kv;

pub trait CloseValue: Sized { type Closed; spec fn closed(self) -> Self::Closed; fn close(self) -> (r: Self::Closed) ensures r == self.closed(); }
pub trait CloseEntry: CloseValue {}
pub trait Key<Source> {
    type Key<'a>: CloseValue + 'static;   // (type level only) this Verus' lifetime pass forgets the 'static argument of Key<'static>; see DESIGN
    spec fn key_of(source: &Source) -> Seq<char>;
    fn from_source(source: &Source) -> (r: Self::Key<'_>) ensures kv(r) == Self::key_of(source);
    fn static_key<'a>(key: &Self::Key<'a>) -> (r: Self::Key<'static>) ensures kv(r) == kv(*key);
    fn static_key_matches<'a>(owned: &Self::Key<'static>, borrowed: &Self::Key<'a>) -> (r: bool) ensures r == (kv(*owned) == kv(*borrowed));
}
pub trait Merge: Sized {
    type Merged: CloseValue + 'static;
    type MergeConfig;
    spec fn inputs(m: &Self::Merged) -> Seq<int>;     // ghost: which inputs have been merged into this aggregate, in order
    spec fn id(&self) -> int;
    fn new_merged(conf: &Self::MergeConfig) -> (r: Self::Merged) ensures Self::inputs(&r) == Seq::<int>::empty();
    fn merge(accum: &mut Self::Merged, input: Self) ensures Self::inputs(final(accum)) == Self::inputs(old(accum)).push(input.id());
}
pub trait MergeRef: Merge {
    fn merge_ref(accum: &mut Self::Merged, input: &Self) ensures Self::inputs(final(accum)) == Self::inputs(old(accum)).push(input.id());
}
pub trait AggregateStrategy: 'static {
    type Source: Merge;
    type Key: Key<Self::Source>;
}
pub type KeyTy<'a, T> = <<T as AggregateStrategy>::Key as Key<<T as AggregateStrategy>::Source>>::Key<'a>;
pub type AggregateTy<T> = <<T as AggregateStrategy>::Source as Merge>::Merged;
pub type AggregatedEntry<T> = AggregationResult<<KeyTy<'static, T> as CloseValue>::Closed, <AggregateTy<T> as CloseValue>::Closed>;

// sink: ghost log of what was appended
// sink: append takes &self, so its effect is witnessed by a predicate only the call can establish
pub uninterp spec fn was_appended<S, E>(sink: S, entry: E) -> bool;
pub trait EntrySink<E>: Sized {
    fn append(&self, entry: E) ensures was_appended(*self, entry);
}
pub mod metrique_writer { pub use super::EntrySink; }
pub trait AggregateSink<T> { fn merge(&mut self, entry: T); }
pub trait AggregateSinkRef<T> { fn merge_ref(&mut self, entry: &T); }
pub trait FlushableSink { fn flush(&mut self); }
pub struct BoxEntrySink { pub p: u8 }
pub fn drop<T>(t: T) {}

// ---- assumed: hashbrown::HashMap raw-entry API and drain over a ghost map ---------------------------
pub mod hashbrown {
    use vstd::prelude::*;
    use super::keytext::kv;
    #[verifier::external_body]
    #[verifier::reject_recursive_types(K)]
    #[verifier::reject_recursive_types(V)]
    pub struct HashMap<K, V> { p: core::marker::PhantomData<(K, V)> }
    #[verifier::external_body] pub struct Hasher { p: u8 }
    impl Hasher {
        #[verifier::external_body] pub fn hash_one<Q>(&self, q: &Q) -> u64 { unimplemented!() }
    }
    impl<K, V> HashMap<K, V> {
        pub uninterp spec fn view(&self) -> Map<Seq<char>, V>;         // aggregate per key text
        pub uninterp spec fn stored_key(&self, t: Seq<char>) -> K;      // the owned key stored for that text
        #[verifier::external_body] pub fn hasher(&self) -> &Hasher { unimplemented!() }
        #[verifier::external_body]
        pub fn raw_entry_mut<'a>(&'a mut self) -> (r: RawEntryBuilderMut<'a, K, V>)
            ensures *r.map == *old(self), *final(r.map) == *final(self),
        { unimplemented!() }
        #[verifier::external_body]
        pub fn drain<'a>(&'a mut self) -> (r: Drain<K, V>)
            ensures r.rest() == old(self)@, final(self)@ == Map::<Seq<char>, V>::empty(),
                    forall|t: Seq<char>| old(self)@.contains_key(t) ==> r.key_at(t) == old(self).stored_key(t),
        { unimplemented!() }
    }
    // definitional: the key stored for text t is a key whose text is t
    pub broadcast axiom fn axiom_stored_key<K, V>(m: HashMap<K, V>, t: Seq<char>)
        ensures m@.contains_key(t) ==> kv(#[trigger] m.stored_key(t)) == t;
    impl<K, V> Default for HashMap<K, V> {
        #[verifier::external_body] fn default() -> (r: Self) ensures r@ == Map::<Seq<char>, V>::empty() { unimplemented!() }
    }
    #[verifier::reject_recursive_types(K)]
    #[verifier::reject_recursive_types(V)]
    pub struct RawEntryBuilderMut<'a, K, V> { pub map: &'a mut HashMap<K, V> }
    #[verifier::reject_recursive_types(K)]
    #[verifier::reject_recursive_types(V)]
    pub struct RawOccupiedEntryMut<'a, K, V> { pub map: &'a mut HashMap<K, V>, pub key: Ghost<Seq<char>> }
    #[verifier::reject_recursive_types(K)]
    #[verifier::reject_recursive_types(V)]
    pub struct RawVacantEntryMut<'a, K, V> { pub map: &'a mut HashMap<K, V> }
    pub mod hash_map {
        #[verifier::reject_recursive_types(K)]
        #[verifier::reject_recursive_types(V)]
        pub enum RawEntryMut<'a, K, V> { Occupied(super::RawOccupiedEntryMut<'a, K, V>), Vacant(super::RawVacantEntryMut<'a, K, V>) }
    }
    impl<'a, K, V> RawEntryBuilderMut<'a, K, V> {
        // probe by hash + equality closure: Occupied with a stored key for which the closure answered true, or Vacant if
        // the closure answers false for every stored key
        #[verifier::external_body]
        pub fn from_hash<F: Fn(&K) -> bool>(self, hash: u64, is_match: F) -> (r: hash_map::RawEntryMut<'a, K, V>)
            requires forall|k: &K| is_match.requires((k,)),
            ensures
                match r {
                    hash_map::RawEntryMut::Occupied(o) => old(self.map)@.contains_key(o.key@) && is_match.ensures((&old(self.map).stored_key(o.key@),), true)
                                                  && *o.map == *old(self.map) && *final(o.map) == *final(self.map),
                    hash_map::RawEntryMut::Vacant(v) => (forall|t: Seq<char>| old(self.map)@.contains_key(t) ==> is_match.ensures((&#[trigger] old(self.map).stored_key(t),), false))
                                                  && *v.map == *old(self.map) && *final(v.map) == *final(self.map),
                }
        { unimplemented!() }
    }
    impl<'a, K, V> RawOccupiedEntryMut<'a, K, V> {
        #[verifier::external_body]
        pub fn into_mut(self) -> (r: &'a mut V)
            ensures *r == old(self.map)@[self.key@],
                    final(self.map)@ == old(self.map)@.insert(self.key@, *final(r)),
                    forall|t: Seq<char>| final(self.map).stored_key(t) == old(self.map).stored_key(t),
        { unimplemented!() }
    }
    impl<'a, K, V> RawVacantEntryMut<'a, K, V> {
        // inserts under the text of the key that is passed in (not the probe)
        #[verifier::external_body]
        pub fn insert_hashed_nocheck(self, hash: u64, key: K, value: V) -> (r: (&'a mut K, &'a mut V))
            ensures *r.1 == value,
                    final(self.map)@ == old(self.map)@.insert(kv(key), *final(r.1)),
                    final(self.map).stored_key(kv(key)) == key,
                    forall|t: Seq<char>| t != kv(key) ==> final(self.map).stored_key(t) == old(self.map).stored_key(t),
        { unimplemented!() }
    }
    // drain: yields every (key, aggregate) exactly once, in an unspecified order
    #[verifier::external_body]
    #[verifier::reject_recursive_types(K)]
    #[verifier::reject_recursive_types(V)]
    pub struct Drain<K, V> { p: core::marker::PhantomData<(K, V)> }
    impl<K, V> Drain<K, V> {
        pub uninterp spec fn rest(&self) -> Map<Seq<char>, V>;
        pub uninterp spec fn key_at(&self, t: Seq<char>) -> K;
        #[verifier::external_body]
        pub fn next(&mut self) -> (r: Option<(K, V)>)
            ensures
                match r {
                    Some((k, v)) => old(self).rest().contains_key(kv(k)) && old(self).rest()[kv(k)] == v && k == old(self).key_at(kv(k))
                                    && final(self).rest() == old(self).rest().remove(kv(k))
                                    && (forall|t: Seq<char>| final(self).key_at(t) == old(self).key_at(t)),
                    None => old(self).rest() =~= Map::<Seq<char>, V>::empty() && final(self).rest() == old(self).rest()
                                    && (forall|t: Seq<char>| final(self).key_at(t) == old(self).key_at(t)),
                }
        { unimplemented!() }
    }
}
pub use hashbrown::hash_map::RawEntryMut;
broadcast use hashbrown::axiom_stored_key;
pub fn verif_iter<K, V>(d: hashbrown::Drain<K, V>) -> (r: hashbrown::Drain<K, V>) ensures r == d { d }
'''

_IMPL = r"^impl < T , Sink > KeyedAggregator < T , Sink > where"

_MERGE_POST = """
            // C10: the input lands in exactly one aggregate - the one under ITS key - appended to what that aggregate already held
            final(self).storage@.contains_key(T::Key::key_of(ENTRY)),
            T::Source::inputs(&final(self).storage@[T::Key::key_of(ENTRY)])
                == (if old(self).storage@.contains_key(T::Key::key_of(ENTRY)) { T::Source::inputs(&old(self).storage@[T::Key::key_of(ENTRY)]) } else { Seq::<int>::empty() }).push(entry.id()),   // OBL input_merged_into_its_key
            // every other aggregate is untouched, and no other key appears
            forall|t: Seq<char>| t != T::Key::key_of(ENTRY) ==>
                (final(self).storage@.contains_key(t) == old(self).storage@.contains_key(t))
                && (old(self).storage@.contains_key(t) ==> final(self).storage@[t] == old(self).storage@[t]),                                  // OBL other_keys_untouched
"""

ITEMS = [
    dict(kind="struct", file=TR, name="AggregationResult", attrs=["#[verifier::reject_recursive_types(K)]", "#[verifier::reject_recursive_types(Agg)]"]),
    dict(kind="struct", file=AGG, name="KeyedAggregator", attrs=["#[verifier::reject_recursive_types(T)]", "#[verifier::reject_recursive_types(Sink)]"]),
    dict(kind="fn", file=AGG, impl=_IMPL, name="get_or_create_accum", ret="r", label="KeyedAggregator::get_or_create_accum",
         sig_where="KeyTy<'static, T>: 'a, AggregateTy<T>: 'a",
         closures={1: dict(params="k: &KeyTy<'static, T>", ret="(b: bool)", ensures="b == (kv(*k) == kv(borrowed_key)),")},
         ensures="""
            old(storage)@.contains_key(T::Key::key_of(entry)) ==> *r == old(storage)@[T::Key::key_of(entry)],                 // OBL existing_aggregate_is_reused
            !old(storage)@.contains_key(T::Key::key_of(entry)) ==> T::Source::inputs(&*r) == Seq::<int>::empty(),            // OBL new_aggregate_starts_empty
            final(storage)@ == old(storage)@.insert(T::Key::key_of(entry), *final(r)),                                        // OBL stored_under_the_inputs_own_key
         """),
    dict(kind="fn", file=AGG, impl=r"^impl < T , Sink > AggregateSink < T :: Source > for KeyedAggregator < T , Sink >", name="merge", label="KeyedAggregator::merge",
         ensures=_MERGE_POST.replace("ENTRY", "&entry")),
    dict(kind="fn", file=AGG, impl=r"^impl < T , Sink > AggregateSinkRef < T :: Source > for KeyedAggregator < T , Sink >", name="merge_ref", label="KeyedAggregator::merge_ref",
         ensures=_MERGE_POST.replace("ENTRY", "entry")),
    dict(kind="fn", file=AGG, impl=r"^impl < T , Sink > FlushableSink for KeyedAggregator < T , Sink >", name="flush", label="KeyedAggregator::flush",
         desugar_for=True, attrs=["#[verifier::exec_allows_no_decreases_clause]"],
         ensures="""
            // C10: a flush emits, for every key held, that key's aggregate (closed, under the closed stored key) ...
            forall|t: Seq<char>| old(self).storage@.contains_key(t) ==>
                was_appended(final(self).sink, AggregationResult { key: #[trigger] old(self).storage.stored_key(t).closed(), aggregated: old(self).storage@[t].closed() }),   // OBL flush_emits_every_key
            // ... and starts over with an empty storage
            final(self).storage@ == Map::<Seq<char>, AggregateTy<T>>::empty(),                                                    // OBL flush_empties_storage
         """,
         loops={1: """
            invariant
                self.storage@ == Map::<Seq<char>, AggregateTy<T>>::empty(),
                self.sink == old(self).sink,
                forall|t: Seq<char>| verif_it0.key_at(t) == old(self).storage.stored_key(t) || !old(self).storage@.contains_key(t),
                forall|t: Seq<char>| #[trigger] verif_it0.rest().contains_key(t) ==> old(self).storage@.contains_key(t) && verif_it0.rest()[t] == old(self).storage@[t],
                forall|t: Seq<char>| old(self).storage@.contains_key(t) && !verif_it0.rest().contains_key(t) ==>
                    was_appended(self.sink, AggregationResult { key: #[trigger] old(self).storage.stored_key(t).closed(), aggregated: old(self).storage@[t].closed() }),
            ensures
                verif_it0.rest() =~= Map::<Seq<char>, AggregateTy<T>>::empty(),
         """}),
]
POSTLUDE = "\npub mod traits { pub use super::AggregationResult; }\n"
CANARY = dict(fn="KeyedAggregator::get_or_create_accum", replace=("final(storage)@ == old(storage)@.insert(T::Key::key_of(entry), *final(r)),", "final(storage)@ == old(storage)@,"))
