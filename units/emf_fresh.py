"""Unit `emf_fresh` (C14): at the moment Emf::format_with_multiplicity hands control to the entry
(`entry.write(&mut writer)`), every accumulating buffer / map of the formatter is empty and the
per-call writer state is rebuilt from constants - so the output cannot depend on earlier entries.

The freshness predicate is GENERATED from the field list of the real `struct State`: every field
of type PrefixedStringBuf or *HashMap* must be fresh, except fields on the committed deferred list
(each of which is cleared before first use by the function that uses it).  A buffer added later
without a clear fails the generated obligation."""
from vf.extract import StructItem, Undecided
from units import emf_value

NAME = "emf_fresh"
OUTER = emf_value.OUTER
PROPERTIES = ["C14"]
EMF = "metrique-writer-format-emf/src/emf.rs"

# fields of State that are NOT cleared at the start of a call, with where they are cleared instead
DEFERRED = {
    "counts_buf": "cleared by write_metric_value before its first use (unit emf_value: the postcondition of write_metric_value "
                  "does not depend on old(counts_buf) beyond its prefix; mutation `no_clear_before` fails there)",
    "dimensions_buf": "cleared in EntryWriter::finish before its first use (finish is not verified; checked syntactically: "
                      "`self.state.dimensions_buf.clear()` precedes the first push to it)",
}

_BUF = emf_value.PRELUDE[:emf_value.PRELUDE.index("// =============================== assumed: floats")]

_PRELUDE = _BUF + r'''
broadcast use tok_axioms::axiom_tok_len_pos;
impl PrefixedStringBuf {
    pub open spec fn fresh(&self) -> bool { self.all().len() == self.prefix_n() }
}
use std::sync::Arc;
// a state field that is written after construction but whose fresh value this generator does not know: never provable
pub uninterp spec fn verif_no_reset_known<T>(t: T) -> bool;
// ---- assumed: hashbrown::HashMap (only len / new / clear / clone) -----------------------------
pub mod hashbrown {
    use vstd::prelude::*;
    #[verifier::external_body]
    #[verifier::reject_recursive_types(K)]
    #[verifier::reject_recursive_types(V)]
    pub struct HashMap<K, V> { p: core::marker::PhantomData<(K, V)> }
    impl<K, V> HashMap<K, V> {
        pub uninterp spec fn spec_len(&self) -> nat;
        #[verifier::external_body]
        pub fn new() -> (r: Self) ensures r.spec_len() == 0 { unimplemented!() }
        #[verifier::external_body]
        pub fn clear(&mut self) ensures final(self).spec_len() == 0 { unimplemented!() }
        #[verifier::external_body]
        pub fn clone(&self) -> (r: Self) ensures r == *self { unimplemented!() }
    }
}
// ---- opaque configuration / helper types of emf.rs (contents irrelevant here) ----------------
#[verifier::external_body] pub struct JsonEncodedString { p: u8 }
#[verifier::external_body] pub struct JsonEncodedArray { p: u8 }
#[verifier::external_body] pub struct LogGroupNameAndTimestampString { p: u8 }
#[verifier::external_body] pub struct DimensionSet { p: u8 }
#[verifier::external_body] pub struct MetricsForDimensionSet { p: u8 }
#[verifier::external_body] pub struct SCow<'a> { p: core::marker::PhantomData<&'a ()> }
#[verifier::external_body] pub struct LineData { p: u8 }
#[verifier::external_body] pub struct SystemTime { p: u8 }
pub struct IoStreamError { pub e: u8 }
pub struct ValidationErrorBuilder { pub errors: Seq<int> }
impl ValidationErrorBuilder {
    // #[derive(Default)] on ValidationErrorBuilder(Vec<String>): no recorded error
    #[verifier::external_body]
    pub fn default() -> (r: Self) ensures r.errors.len() == 0 { unimplemented!() }
}
pub mod io { pub trait Write {} }

// ---- the entry under format: it may only be started on a fresh writer -------------------------
pub trait Entry {
    fn write<'a>(&'a self, writer: &mut EntryWriter<'a>)
        requires verif_fresh_writer(*old(writer));
}
'''


def _fresh_predicate(repo, variant, bu):
    """Generate `verif_fresh_state` from the real field list of struct State."""
    st = StructItem(repo, dict(file=EMF, name="State"))
    must, deferred, config = [], [], []
    undefer = (variant.get("canary") or {}).get("undefer")
    # fields that are WRITTEN somewhere in the file after construction (assignment or a mutating method call through
    # `state.<field>`) are mutable formatter state whatever their type: they need a reset at the start of a call too
    from vf.rusttok import Source
    src = Source(repo + "/" + EMF)
    toks = [t.text for t in src.toks]
    MUT = ("insert", "push", "push_str", "extend", "replace", "take", "get_or_insert_with", "get_or_insert", "clear", "entry",
           "entry_ref", "retain", "drain", "truncate", "append", "remove", "pop", "swap", "set", "store", "fetch_add")
    written = set()
    for i in range(len(toks) - 4):
        if toks[i] == "state" and toks[i + 1] == "." and toks[i + 3] in ("=", "+=", "-=", "|=", "&=", "*="):
            written.add(toks[i + 2])
        if toks[i] == "state" and toks[i + 1] == "." and toks[i + 3] == "." and toks[i + 4] in MUT and toks[i + 5] == "(":
            written.add(toks[i + 2])
    for name, ty in st.fields():
        if name == undefer:
            must.append((name, ty, "s.%s.fresh()" % name))
        elif "PrefixedStringBuf" in ty:
            (deferred if name in DEFERRED else must).append((name, ty, "s.%s.fresh()" % name))
        elif "HashMap" in ty or "HashSet" in ty or "BTreeMap" in ty:
            (deferred if name in DEFERRED else must).append((name, ty, "s.%s.spec_len() == 0" % name))
        elif name in written:
            t0 = ty.replace(" ", "")
            if t0.startswith("Option<"):
                cond = "s.%s is None" % name
            elif t0.startswith("Vec<") or t0 == "String":
                cond = "s.%s@.len() == 0" % name
            elif t0 == "bool":
                cond = "!s.%s" % name
            elif t0 in ("u8", "u16", "u32", "u64", "usize", "i32", "i64"):
                cond = "s.%s == 0" % name
            else:
                cond = "verif_no_reset_known(s.%s)" % name
            must.append((name, ty, cond + "   /* written after construction: OBL mutable_state_field_is_reset */"))
        else:
            config.append((name, ty))
    missing = [d for d in DEFERRED if d not in [n for n, _, _ in deferred] and d != undefer]
    if missing:
        raise Undecided("deferred field(s) %s no longer exist in struct State" % missing)
    lines = ["// GENERATED from struct State (%s:%d): %d accumulating field(s) must be fresh, %d deferred, %d configuration"
             % (EMF, st.first_line, len(must), len(deferred), len(config))]
    lines.append("pub open spec fn verif_fresh_state(s: State) -> bool {")
    lines.append("    true")
    for n, ty, cond in must:
        lines.append("    && %s   // %s: %s" % (cond, n, ty))
    lines.append("}")
    for n, ty, _ in deferred:
        lines.append("// deferred: %s: %s -- %s" % (n, ty, DEFERRED[n]))
    for n, ty in config:
        lines.append("// configuration (never written by format): %s: %s" % (n, ty))
    lines.append("""
pub open spec fn verif_fresh_writer(w: EntryWriter<'_>) -> bool {
    verif_fresh_state(*w.state)
    && w.entry_dimensions is None && w.timestamp is None
    && w.error.errors.len() == 0
    && !w.allow_split_entries && !w.is_allow_unroutable_entries
}
""")
    bu.generated_fresh = {"must": [n for n, _, _ in must], "deferred": [n for n, _, _ in deferred], "config": [n for n, _ in config]}
    return "\n".join(lines)


ITEMS = [
    dict(kind="struct", file=EMF, name="Validation"),
    dict(kind="struct", file=EMF, name="State"),
    dict(kind="struct", file=EMF, name="Emf"),
    dict(kind="struct", file=EMF, name="EntryWriter"),
    dict(kind="raw", label="generated freshness predicate", text=_fresh_predicate),
    dict(kind="raw", label="EntryWriter::finish (assumed)", text="""
impl EntryWriter<'_> {
    // NOT verified (hash-map iteration, SmallVec, vectored IO): assumed to only read the per-call state
    #[verifier::external_body]
    fn finish(self, output: &mut impl io::Write) -> (r: Result<(), IoStreamError>) { unimplemented!() }
}
"""),
    dict(kind="fn", file=EMF, impl=r"^impl Emf$", name="format_with_multiplicity", ret="r",
         impl_header_override="impl Emf",
         requires="""
            old(self).state.string_fields_buf.wf(), old(self).state.fields_buf.wf(), old(self).state.metrics_buf.wf(),
            old(self).state.decl_buf.wf(), old(self).state.dimensions_buf.wf(), old(self).state.counts_buf.wf(),
         """,
         ensures="true,",
         proofs=[("before", "entry . write ( & mut writer ) ;",
                  """proof {
                        // the per-call writer is rebuilt from the call's own arguments and the configuration only
                        assert(writer.multiplicity == multiplicity);                                   // OBL writer_multiplicity_is_argument
                        assert(verif_fresh_writer(writer));                                            // OBL buffers_fresh_at_entry_write
                     }""")]),
]

PRELUDE = _PRELUDE
POSTLUDE = r'''
'''
# canary: if counts_buf (not cleared at the start of a call) is taken off the deferred list, the unit must FAIL
CANARY = dict(fn="format_with_multiplicity", undefer="counts_buf", negated="counts_buf treated as must-be-fresh")
SYNTACTIC = [
    dict(file=EMF, impl=r"^impl EntryWriter < '_ >$", fn="finish",
         ordered=["self . state . dimensions_buf . clear ( ) ;", "self . state . dimensions_buf . push"],
         why="dimensions_buf is cleared in finish before its first use"),
]
