// Appended to metrique-writer-core/src/entry/boxed.rs under #[cfg(kani)] in a scratch copy (C15, BOUNDED).
// The Dyn* double-dispatch bridge: a format must see exactly the same items through BoxEntry as from the plain entry.
#[cfg(kani)]
mod verif_kani {
    use super::*;
    use std::time::Duration;

    const MAXOBS: usize = 2;

    #[derive(Clone, Copy, PartialEq)]
    enum Ev {
        None,
        Timestamp(u64),
        Str { name: u8, len: usize, first: u8 },
        Metric { name: u8, n: usize, obs: [u64; MAXOBS], kinds: [u8; MAXOBS], occ: [u64; MAXOBS], unit_is_count: bool, ndims: usize, d0: (u8, u8) },
        Error { name: u8 },
    }
    struct Log { ev: [Ev; 4], n: usize }
    impl Log {
        fn push(&mut self, e: Ev) { if self.n < 4 { self.ev[self.n] = e; } self.n += 1; }
    }
    struct RecW<'l> { log: &'l mut Log }
    struct RecVW<'l> { log: &'l mut Log, name: u8 }
    impl<'a, 'l> EntryWriter<'a> for RecW<'l> {
        fn timestamp(&mut self, t: SystemTime) {
            self.log.push(Ev::Timestamp(t.duration_since(SystemTime::UNIX_EPOCH).unwrap_or_default().as_secs()));
        }
        fn value(&mut self, name: impl Into<Cow<'a, str>>, value: &(impl Value + ?Sized)) {
            let name: Cow<'a, str> = name.into();
            let b = name.as_bytes();
            let nb = if b.is_empty() { 0 } else { b[0] };
            value.write(RecVW { log: &mut *self.log, name: nb });
        }
        fn config(&mut self, _config: &'a dyn EntryConfig) {}
    }
    impl<'l> ValueWriter for RecVW<'l> {
        fn string(self, value: &str) {
            let b = value.as_bytes();
            self.log.push(Ev::Str { name: self.name, len: b.len(), first: if b.is_empty() { 0 } else { b[0] } });
        }
        fn metric<'a>(self, distribution: impl IntoIterator<Item = Observation>, unit: Unit,
                      dimensions: impl IntoIterator<Item = (&'a str, &'a str)>, _flags: MetricFlags<'_>) {
            let mut obs = [0u64; MAXOBS];
            let mut kinds = [0u8; MAXOBS];
            let mut occ = [0u64; MAXOBS];
            let mut n = 0;
            for o in distribution {
                if n < MAXOBS {
                    match o {
                        Observation::Unsigned(v) => { kinds[n] = 1; obs[n] = v; }
                        Observation::Floating(f) => { kinds[n] = 2; obs[n] = f.to_bits(); }
                        Observation::Repeated { total, occurrences } => { kinds[n] = 3; obs[n] = total.to_bits(); occ[n] = occurrences; }
                    }
                }
                n += 1;
            }
            let mut ndims = 0;
            let mut d0 = (0u8, 0u8);
            for (k, v) in dimensions {
                if ndims == 0 { d0 = (k.as_bytes()[0], v.as_bytes()[0]); }
                ndims += 1;
            }
            self.log.push(Ev::Metric { name: self.name, n, obs, kinds, occ, unit_is_count: unit == Unit::Count, ndims, d0 });
        }
        fn error(self, _error: ValidationError) { self.log.push(Ev::Error { name: self.name }); }
    }

    fn any_obs() -> Observation {
        match kani::any::<u8>() % 3 {
            0 => Observation::Unsigned(kani::any()),
            1 => Observation::Floating(kani::any()),
            _ => Observation::Repeated { total: kani::any(), occurrences: kani::any() },
        }
    }

    // a value that writes its distribution through different iterator shapes (exact and inexact size hints)
    struct Dist { obs: [Observation; MAXOBS], n: usize, shape: u8, with_dim: bool, count_unit: bool }
    impl Value for Dist {
        fn write(&self, writer: impl ValueWriter) {
            let unit = if self.count_unit { Unit::Count } else { Unit::None };
            let n = self.n;
            let dims: &[(&str, &str)] = if self.with_dim { &[("K", "v")] } else { &[] };
            match self.shape {
                // exact size hint
                0 => writer.metric(self.obs[..n].iter().copied(), unit, dims.iter().copied(), MetricFlags::empty()),
                // inexact size hint (lower bound 0), same elements
                1 => writer.metric(self.obs[..n].iter().copied().filter(|_| true), unit, dims.iter().copied(), MetricFlags::empty()),
                // skipping adapter
                _ => writer.metric(self.obs.iter().copied().take(n), unit, dims.iter().copied(), MetricFlags::empty()),
            }
        }
    }
    struct E { ts: Option<u64>, d: Dist, s: bool }
    impl Entry for E {
        fn write<'a>(&'a self, w: &mut impl EntryWriter<'a>) {
            if let Some(t) = self.ts { w.timestamp(SystemTime::UNIX_EPOCH + Duration::from_secs(t)); }
            w.value("m", &self.d);
            if self.s { w.value("s", "xyz"); }
        }
    }

    fn any_entry() -> E {
        let n: usize = kani::any();
        kani::assume(n <= MAXOBS);
        let shape: u8 = kani::any();
        kani::assume(shape <= 1);
        E {
            ts: if kani::any() { Some(7) } else { None },
            d: Dist { obs: [any_obs(), any_obs()], n, shape, with_dim: kani::any(), count_unit: kani::any() },
            s: kani::any(),
        }
    }

    #[kani::proof]
    #[kani::unwind(4)]
    fn box_entry_is_transparent() {
        let e = any_entry();
        let mut plain = Log { ev: [Ev::None; 4], n: 0 };
        Entry::write(&e, &mut RecW { log: &mut plain });
        let (pn, pev) = (plain.n, plain.ev);
        let boxed = BoxEntry::new(e);
        let mut via_box = Log { ev: [Ev::None; 4], n: 0 };
        Entry::write(&boxed, &mut RecW { log: &mut via_box });
        assert!(via_box.n == pn);
        let mut i = 0;
        while i < 4 {
            assert!(via_box.ev[i] == pev[i]);
            i += 1;
        }
        kani::cover!(pn >= 2, "two items reachable");
    }
}
