"""Mechanical extraction of real items from /repo into a Verus unit.

Every function body that ends up in a unit is the text between two offsets of
the repository file, modified only by the enumerated rewrites R1..R9 below.
Each rewrite records how many sites it touched; the unit definition pins the
expected count so code cannot silently move into or out of a rewritten
construct (mismatch => Undecided, exit 2, never an alarm).
"""
import re
from .rusttok import Source, tokenize, match_brackets, TokError, norm


class Undecided(Exception):
    """Extraction/tool problem: the check can not decide (exit 2)."""


# --------------------------------------------------------------------------
# rewrite passes: text -> (text, hits)
# --------------------------------------------------------------------------

def _toks(text):
    try:
        t = tokenize(text)
        return t, match_brackets(t)
    except TokError as e:
        raise Undecided("tokenizer: %s" % e)


def _apply(text, edits):
    edits.sort()
    out, pos = [], 0
    for s, e, rep in edits:
        if s < pos:
            raise Undecided("overlapping rewrite edits")
        out.append(text[pos:s])
        out.append(rep)
        pos = e
    out.append(text[pos:])
    return "".join(out)


LOG_MACROS = ("error", "warn", "info", "debug", "trace")


def r2_rate_limit(text):
    """rate_limited!(D, EXPR)[;] -> if verif_nondet_bool() { EXPR; }"""
    hits = 0
    while True:
        toks, match = _toks(text)
        for i, t in enumerate(toks):
            if t.kind == "ident" and t.text == "rate_limited" and i + 2 < len(toks) and \
                    toks[i + 1].text == "!" and toks[i + 2].text == "(":
                o, c = i + 2, match[i + 2]
                # first top-level comma
                j = o + 1
                comma = None
                while j < c:
                    if toks[j].kind == "punct" and toks[j].text in ("(", "[", "{"):
                        j = match[j] + 1
                        continue
                    if toks[j].text == ",":
                        comma = j
                        break
                    j += 1
                if comma is None:
                    raise Undecided("R2: rate_limited! without two arguments")
                expr = text[toks[comma].end:toks[c].start].strip().rstrip(",").strip()
                end = toks[c].end
                if c + 1 < len(toks) and toks[c + 1].text == ";":
                    end = toks[c + 1].end
                text = text[:t.start] + "if verif_nondet_bool() { " + expr + "; }" + text[end:]
                hits += 1
                break
        else:
            return text, hits


def r1_drop_log(text):
    """Remove tracing::{error,warn,info,debug,trace}!(..) invocations (logging only)."""
    hits = 0
    while True:
        toks, match = _toks(text)
        for i, t in enumerate(toks):
            if t.kind == "ident" and t.text == "tracing" and i + 4 < len(toks) and toks[i + 1].text == "::" \
                    and toks[i + 2].text in LOG_MACROS and toks[i + 3].text == "!" and toks[i + 4].text == "(":
                c = match[i + 4]
                prev = toks[i - 1].text if i > 0 else "{"
                end = toks[c].end
                has_semi = c + 1 < len(toks) and toks[c + 1].text == ";"
                if prev in ("{", ";", "}"):
                    if has_semi:
                        end = toks[c + 1].end
                        rep = ""
                    else:
                        nxt = toks[c + 1].text if c + 1 < len(toks) else "}"
                        if nxt != "}":
                            raise Undecided("R1: log macro in unexpected position (next %r)" % nxt)
                        rep = ""
                elif prev == "=>":
                    rep = "()"
                else:
                    raise Undecided("R1: log macro in expression position after %r" % prev)
                text = text[:t.start] + rep + text[end:]
                hits += 1
                break
        else:
            return text, hits


def r6_bool_or_assign(text):
    """a |= b;  ->  a = a || b;   (b a plain path/field expression: no side effect)"""
    hits = 0
    while True:
        toks, match = _toks(text)
        for i, t in enumerate(toks):
            if t.kind == "punct" and t.text == "|=":
                # lhs: walk back over ident(.ident)* ; rhs: forward to `;`
                s = i - 1
                while s >= 0 and (toks[s].kind == "ident" or toks[s].text == "."):
                    s -= 1
                s += 1
                e = i + 1
                while e < len(toks) and toks[e].text != ";":
                    if not (toks[e].kind == "ident" or toks[e].text in (".", "!")):
                        raise Undecided("R6: rhs of |= is not a plain path")
                    e += 1
                lhs = text[toks[s].start:toks[i - 1].end]
                rhs = text[toks[i + 1].start:toks[e - 1].end]
                text = text[:toks[s].start] + "%s = %s || %s" % (lhs, lhs, rhs) + text[toks[e - 1].end:]
                hits += 1
                break
        else:
            return text, hits


def r7_mut_self(sig, body):
    """fn f(mut self, ..) { B }  ->  fn f(self, ..) { let mut __s = self; B[self->__s] }"""
    toks, _ = _toks(sig)
    for i, t in enumerate(toks):
        if t.text == "mut" and i + 1 < len(toks) and toks[i + 1].text == "self" and toks[i - 1].text in ("(", ","):
            sig2 = sig[:t.start] + sig[toks[i + 1].start:]
            btoks, _ = _toks(body)
            edits = [(b.start, b.end, "__s") for b in btoks if b.kind == "ident" and b.text == "self"]
            body2 = _apply(body, edits)
            assert body2.lstrip().startswith("{")
            k = body2.index("{")
            body2 = body2[:k + 1] + " let mut __s = self;" + body2[k + 1:]
            return sig2, body2, 1
    return sig, body, 0


def r14_impl_trait_args(sig):
    """fn f<G>(.., x: &mut impl Tr<'a>, ..)  ->  fn f<G, VerifI0: Tr<'a>>(.., x: &mut VerifI0, ..)
    (argument-position impl Trait is an anonymous generic parameter: the language's own desugaring)"""
    hits = 0
    while True:
        toks, match = _toks(sig)
        # parameter list = first '(' after `fn name [<..>]`
        fn_i = next(i for i, t in enumerate(toks) if t.text == "fn")
        j = fn_i + 2
        gen_open = gen_close = None
        if toks[j].text == "<":
            gen_open = j
            depth = 0
            while True:
                if toks[j].text == "<":
                    depth += 1
                elif toks[j].text in (">", ">>"):
                    depth -= len(toks[j].text)
                    if depth <= 0:
                        break
                j += 1
            gen_close = j
            j += 1
        if toks[j].text != "(":
            raise Undecided("R14: cannot find parameter list")
        po, pc = j, match[j]
        k = po + 1
        found = None
        while k < pc:
            if toks[k].kind == "ident" and toks[k].text == "impl":
                found = k
                break
            k += 1
        if found is None:
            return sig, hits
        # bound extends to the next ',' or ')' at depth 0 (angle brackets counted)
        e = found + 1
        depth = 0
        while e < pc:
            tx = toks[e].text
            if tx in ("(", "["):
                e = match[e] + 1
                continue
            if tx == "<":
                depth += 1
            elif tx == ">":
                depth -= 1
            elif tx == ">>":
                depth -= 2
            elif tx == "," and depth == 0:
                break
            elif tx == ")":          # `&(impl Tr + ?Sized)`: the bound ends at the enclosing parenthesis
                break
            e += 1
        bound = sig[toks[found + 1].start:toks[e - 1].end]
        name = "VerifI%d" % hits
        new_sig = sig[:toks[found].start] + name + sig[toks[e - 1].end:]
        # add generic
        if gen_open is not None:
            ins = toks[gen_close].end - 1
            new_sig = new_sig[:ins] + ", %s: %s " % (name, bound) + new_sig[ins:]
        else:
            ins = toks[fn_i + 1].end
            new_sig = new_sig[:ins] + "<%s: %s>" % (name, bound) + new_sig[ins:]
        sig = new_sig
        hits += 1


def splice_closure_specs(body, specs):
    """Closure contracts (the analogue of loop invariants): the n-th closure literal `|p| EXPR` that is an argument
    of a call becomes `|p: T| -> (r: R) requires .. ensures .. { EXPR }` - parameter types, the named return and
    the contract come from the sidecar; the closure body text is unchanged.  specs: {ordinal: dict(params, ret, ensures, requires)}"""
    if not specs:
        return body, 0
    toks, match = _toks(body)
    found = []
    for i, t in enumerate(toks):
        if t.text in ("|", "||") and i > 0 and toks[i - 1].text in ("(", ","):
            if t.text == "||":
                pend = i
            else:
                pend = i + 1
                while pend < len(toks) and toks[pend].text != "|":
                    pend += 1
            # body: block or expression up to the enclosing ')' / ',' at depth 0
            b0 = pend + 1
            if toks[b0].text == "{":
                b1 = match[b0]
            else:
                k = b0
                while k < len(toks):
                    if toks[k].text in ("(", "[", "{"):
                        k = match[k] + 1
                        continue
                    if toks[k].text in (")", ","):
                        break
                    k += 1
                b1 = k - 1
            found.append((i, pend, b0, b1))
    edits = []
    for ordinal, sp in specs.items():
        if ordinal < 1 or ordinal > len(found):
            raise Undecided("closure #%d not found (%d closures)" % (ordinal, len(found)))
        i, pend, b0, b1 = found[ordinal - 1]
        src_body = body[toks[b0].start:toks[b1].end]
        head = "|%s| -> %s" % (sp.get("params", ""), sp["ret"])
        if sp.get("requires"):
            head += " requires " + sp["requires"]
        if sp.get("ensures"):
            head += " ensures " + sp["ensures"]
        if toks[b0].text != "{":
            src_body = "{ " + src_body + " }"
        if sp.get("destructure"):
            # R31: a pattern parameter `|PAT| BODY` is written `|p: T| { let PAT = p; BODY }` (this Verus accepts only variables as
            # closure parameters); the pattern text must be the closure's own
            pat_src = body[toks[i + 1].start:toks[pend - 1].end] if pend > i + 1 else ""
            want, var = sp["destructure"]
            if "".join(pat_src.split()) != "".join(want.split()):
                raise Undecided("closure #%d: parameter pattern is %r, expected %r" % (ordinal, pat_src, want))
            src_body = "{ let %s = %s; %s }" % (want, var, src_body)
        edits.append((toks[i].start, toks[b1].end, head + " " + src_body))
    if len(found) != len(specs) and specs.get("__all__", True):
        pass
    return _apply(body, edits), len(edits)


def r9_math_inc(text, names):
    """PATH += 1;  ->  PATH = verif_math_inc(PATH);   for the listed statistic counters.
    Machine arithmetic treated as mathematical for these counters (listed assumption)."""
    hits = 0
    while True:
        toks, match = _toks(text)
        for i, t in enumerate(toks):
            if t.text == "+=" and toks[i + 1].text == "1" and toks[i + 2].text in (";", ","):
                s = i - 1
                while s >= 0 and (toks[s].kind == "ident" or toks[s].text == "."):
                    s -= 1
                s += 1
                lhs = norm(text[toks[s].start:toks[i - 1].end]).replace(" ", "")
                if lhs not in names:
                    continue
                src = text[toks[s].start:toks[i - 1].end]
                fn = names[lhs] if isinstance(names, dict) else "verif_math_inc"
                text = text[:toks[s].start] + "%s = %s(%s)" % (src, fn, src) + text[toks[i + 1].end:]
                hits += 1
                break
        else:
            return text, hits


def r3_for_chain(text):
    """for P in (A).into_iter().chain(B) BODY  ->  explicit Option/Iterator loop.
    Only the exact shape `for PAT in EXPR_A.into_iter().chain(EXPR_B) {` is accepted."""
    hits = 0
    while True:
        toks, match = _toks(text)
        for i, t in enumerate(toks):
            if t.kind == "ident" and t.text == "for":
                # find `in` at depth 0
                j = i + 1
                while j < len(toks) and not (toks[j].kind == "ident" and toks[j].text == "in"):
                    if toks[j].text in ("(", "[", "{"):
                        j = match[j] + 1
                    else:
                        j += 1
                if j >= len(toks):
                    continue
                # body open brace
                k = j + 1
                while k < len(toks) and toks[k].text != "{":
                    if toks[k].text in ("(", "["):
                        k = match[k] + 1
                    else:
                        k += 1
                head = toks[j + 1:k]
                htxt = " ".join(x.text for x in head)
                m = re.match(r"^(.*) \. into_iter \( \) \. chain \( (.*) \)$", htxt)
                if not m:
                    continue
                # recover source text of A and B by token positions
                # A = tokens up to the `.into_iter`
                idx_into = None
                for q in range(len(head) - 1, -1, -1):
                    if head[q].text == "into_iter":
                        idx_into = q
                        break
                a_src = text[head[0].start:head[idx_into - 2].end]
                chain_open = None
                for q in range(idx_into, len(head)):
                    if head[q].text == "chain":
                        chain_open = q + 1
                        break
                b_src = text[head[chain_open + 1].start:head[-2].end]
                pat = text[toks[i + 1].start:toks[j - 1].end]
                body = text[toks[k].start:toks[match[k]].end]
                rep = ("{ let mut verif_first = %s; let mut verif_rest = %s; loop { "
                       "let verif_next = match verif_first.take() { Some(verif_x) => Some(verif_x), None => verif_rest.next() }; "
                       "match verif_next { Some(%s) => %s, None => break } } }" % (a_src, b_src, pat, body))
                text = text[:t.start] + rep + text[toks[match[k]].end:]
                hits += 1
                break
        else:
            return text, hits


def r3b_for_desugar(text):
    """for PAT in EXPR BODY  ->  { let mut verif_itN = EXPR; loop { match verif_itN.next() { Some(PAT) => BODY, None => break } } }
    (the language's own desugaring of `for`, with the iterator obtained by the stand-in's `into_iter`-free form:
    EXPR must already be an iterator, or a reference whose stand-in type has `next`).  `continue`/`break` keep their meaning."""
    hits = 0
    while True:
        toks, match = _toks(text)
        for i, t in enumerate(toks):
            if t.kind == "ident" and t.text == "for" and (i == 0 or toks[i - 1].text in ("{", "}", ";")):
                j = i + 1
                while j < len(toks) and not (toks[j].kind == "ident" and toks[j].text == "in"):
                    if toks[j].text in ("(", "[", "{"):
                        j = match[j] + 1
                    else:
                        j += 1
                k = j + 1
                while k < len(toks) and toks[k].text != "{":
                    if toks[k].text in ("(", "["):
                        k = match[k] + 1
                    else:
                        k += 1
                pat = text[toks[i + 1].start:toks[j - 1].end]
                expr = text[toks[j + 1].start:toks[k - 1].end]
                body = text[toks[k].start:toks[match[k]].end]
                rep = ("{ let mut verif_it%d = verif_iter(%s); loop { match verif_it%d.next() { Some(%s) => %s, None => break } } }"
                       % (hits, expr, hits, pat, body))
                text = text[:t.start] + rep + text[toks[match[k]].end:]
                hits += 1
                break
        else:
            return text, hits


def r20_question_mark(text):
    """statement `EXPR?;`  ->  `match EXPR { Ok(v) => v, Err(e) => return Err(From::from(e)) };`
    (the language's desugaring of `?` on a Result; this Verus forgets the From conversion of the sugared form)"""
    hits = 0
    while True:
        toks, match = _toks(text)
        for i, t in enumerate(toks):
            if t.text == "?" and i + 1 < len(toks) and toks[i + 1].text == ";":
                s0 = i - 1
                while s0 >= 0:
                    tx = toks[s0].text
                    if tx in (")", "]", "}"):
                        s0 = match[s0] - 1
                        continue
                    if tx in (";", "{", "}"):
                        break
                    s0 -= 1
                s0 += 1
                expr = text[toks[s0].start:toks[i - 1].end]
                rep = "match %s { Ok(verif_v) => verif_v, Err(verif_e) => return Err(From::from(verif_e)) }" % expr
                text = text[:toks[s0].start] + rep + text[toks[i].end:]
                hits += 1
                break
        else:
            return text, hits


def r22_bool_then(text):
    """RECV.then(|| EXPR)  ->  (if RECV { Some(EXPR) } else { None })   -- the definition of bool::then (the only std
    `then` taking a closure); RECV is the postfix expression before `.then`.  Removes an unannotated closure."""
    hits = 0
    while True:
        toks, match = _toks(text)
        rev = {v: k for k, v in match.items()}
        for i, t in enumerate(toks):
            if not (t.kind == "ident" and t.text == "then" and i > 0 and toks[i - 1].text == "." and
                    i + 2 < len(toks) and toks[i + 1].text == "(" and toks[i + 2].text == "||"):
                continue
            close = match[i + 1]
            # receiver: walk back over a postfix chain
            s = i - 2
            while s >= 0:
                tt = toks[s]
                if tt.text in (")", "]") and s in rev:
                    s = rev[s] - 1
                    continue
                if tt.kind == "ident" or tt.text in (".", "::", "!") or tt.kind in ("int", "num"):
                    if tt.text == "!" and not (s > 0 and toks[s - 1].kind == "ident" and toks[s + 1].text in ("(", "[")):
                        break
                    if tt.kind == "ident" and tt.text in ("return", "in", "if", "while", "match", "let", "else", "mut"):
                        break
                    s -= 1
                    continue
                break
            s += 1
            if s > i - 2:
                continue
            recv = text[toks[s].start:toks[i - 2].end]
            inner = text[toks[i + 2].end:toks[close].start].strip()
            text = text[:toks[s].start] + "(if %s { Some(%s) } else { None })" % (recv, inner) + text[toks[close].end:]
            hits += 1
            break
        else:
            return text, hits


def r28_is_some_and(text):
    """RECV.is_some_and(|P| EXPR)  ->  (match RECV { Some(P) => EXPR, None => false })   -- the definition of Option::is_some_and;
    removes an unannotated closure (same receiver scan as R22)."""
    hits = 0
    while True:
        toks, match = _toks(text)
        for i, t in enumerate(toks):
            if not (t.kind == "ident" and t.text == "is_some_and" and i > 0 and toks[i - 1].text == "." and
                    i + 2 < len(toks) and toks[i + 1].text == "(" and toks[i + 2].text == "|"):
                continue
            close = match[i + 1]
            pe = i + 3
            while pe < close and toks[pe].text != "|":
                pe += 1
            if pe >= close:
                continue
            s0 = i - 2
            while s0 >= 0:
                tt = toks[s0]
                if tt.text in (")", "]") and s0 in match:
                    s0 = match[s0] - 1
                    continue
                if tt.kind == "ident" or tt.text in (".", "::", "!") or tt.kind in ("int", "num"):
                    if tt.text == "!" and not (s0 > 0 and toks[s0 - 1].kind == "ident" and toks[s0 + 1].text in ("(", "[")):
                        break
                    if tt.kind == "ident" and tt.text in ("return", "in", "if", "while", "match", "let", "else", "mut"):
                        break
                    s0 -= 1
                    continue
                break
            s0 += 1
            if s0 > i - 2:
                continue
            recv = text[toks[s0].start:toks[i - 2].end]
            pat = text[toks[i + 3].start:toks[pe - 1].end]
            inner = text[toks[pe].end:toks[close].start].strip()
            text = text[:toks[s0].start] + "(match %s { Some(%s) => %s, None => false })" % (recv, pat, inner) + text[toks[close].end:]
            hits += 1
            break
        else:
            return text, hits


def r4_cfg_resolve(text, debug_assertions):
    """Resolve #[cfg(debug_assertions)] / #[cfg(not(debug_assertions))] on the following
    field, statement or expression-statement for the stated profile."""
    hits = 0
    while True:
        toks, match = _toks(text)
        for i, t in enumerate(toks):
            if t.text == "#" and i + 1 < len(toks) and toks[i + 1].text == "[" :
                c = match[i + 1]
                inner = " ".join(x.text for x in toks[i + 2:c])
                if inner == "cfg ( debug_assertions )":
                    keep = debug_assertions
                elif inner == "cfg ( not ( debug_assertions ) )":
                    keep = not debug_assertions
                else:
                    continue
                # the annotated thing: up to the next `,` or `;` at depth 0 (inclusive), or a block
                j = c + 1
                while j < len(toks):
                    if toks[j].text in ("(", "[", "{"):
                        j = match[j] + 1
                        if toks[j - 1].text == "}" and (j >= len(toks) or toks[j].text not in (",", ";", ".", "?")):
                            j -= 1
                            break
                        continue
                    if toks[j].text in (",", ";"):
                        break
                    if toks[j].text in (")", "]", "}"):
                        j -= 1
                        break
                    j += 1
                end = toks[j].end
                if keep:
                    text = text[:t.start] + text[toks[c].end:]
                else:
                    text = text[:t.start] + text[end:]
                hits += 1
                break
        else:
            return text, hits


def strip_attrs_and_docs(text, keep_derive=False):
    """Remove outer attributes (#[...]) from an item's text (derive/doc/allow/inline/track_caller...).
    Comments are kept: they are not tokens."""
    toks, match = _toks(text)
    edits = []
    i = 0
    while i < len(toks):
        if toks[i].text == "#" and i + 1 < len(toks) and toks[i + 1].text == "[":
            c = match[i + 1]
            inner = " ".join(x.text for x in toks[i + 2:c])
            if keep_derive and inner.startswith("derive"):
                pass
            elif not inner.startswith("verifier") and not inner.startswith("cfg"):
                edits.append((toks[i].start, toks[c].end, ""))
            i = c + 1
        else:
            i += 1
    return _apply(text, edits)


def r8_pub_fields(text):
    """make a struct and its named fields pub (visibility only)."""
    # pub(super) / pub(crate) / pub(in ..) -> pub
    toks, match = _toks(text)
    edits = []
    for i, t in enumerate(toks):
        if t.text == "pub" and i + 1 < len(toks) and toks[i + 1].text == "(" and toks[i + 2].text in ("super", "crate", "in", "self"):
            edits.append((toks[i + 1].start, toks[match[i + 1]].end, ""))
    text = _apply(text, edits)
    toks, match = _toks(text)
    edits = []
    # struct keyword
    for i, t in enumerate(toks):
        if t.kind == "ident" and t.text in ("struct", "enum"):
            if i == 0 or toks[i - 1].text not in ("pub", ")"):
                edits.append((t.start, t.start, "pub "))
            kind = t.text
            j = i
            while toks[j].text not in ("{", "(", ";"):
                j += 1
            if toks[j].text == "{" and kind == "struct":
                c = match[j]
                k = j + 1
                start_field = True
                while k < c:
                    if start_field and toks[k].kind == "ident" and toks[k + 1].text == ":" :
                        if toks[k].text != "pub":
                            edits.append((toks[k].start, toks[k].start, "pub "))
                        start_field = False
                    elif start_field and toks[k].text == "pub":
                        start_field = False
                    if toks[k].text in ("(", "[", "{"):
                        k = match[k] + 1
                        continue
                    if toks[k].text == "<":
                        # skip generics roughly: commas inside <> must not start a field
                        depth = 1
                        k += 1
                        while depth and k < c:
                            if toks[k].text == "<":
                                depth += 1
                            elif toks[k].text == ">":
                                depth -= 1
                            elif toks[k].text == ">>":
                                depth -= 2
                            elif toks[k].text in ("(", "["):
                                k = match[k]
                            k += 1
                        continue
                    if toks[k].text == ",":
                        start_field = True
                    k += 1
            elif toks[j].text == "(" and kind == "struct":
                c = match[j]
                k = j + 1
                start_field = True
                while k < c:
                    if start_field:
                        if toks[k].text != "pub":
                            edits.append((toks[k].start, toks[k].start, "pub "))
                        start_field = False
                    if toks[k].text in ("(", "[", "{"):
                        k = match[k] + 1
                        continue
                    if toks[k].text == "<":
                        depth = 1
                        k += 1
                        while depth and k < c:
                            if toks[k].text == "<":
                                depth += 1
                            elif toks[k].text == ">":
                                depth -= 1
                            elif toks[k].text == ">>":
                                depth -= 2
                            k += 1
                        continue
                    if toks[k].text == ",":
                        start_field = True
                    k += 1
            break
    return _apply(text, edits)


# --------------------------------------------------------------------------
# items
# --------------------------------------------------------------------------

def inline_helper(body, helper_name, helper_sig, helper_body):
    """R21 helper inlining: a call `RECV.helper(ARGS)` / `Self::helper(ARGS)` to a private helper of the same file that is
    not under contract is replaced by a block `{ let (params) = (ARGS); BODY[self -> RECV] }`.  Only for helpers without
    generics, without `return`, whose parameters are plain `name: Type` - otherwise Undecided.  Semantics-preserving
    (arguments are evaluated first, left to right, as in a call)."""
    stoks, smatch = _toks(helper_sig)
    fi = next(i for i, t in enumerate(stoks) if t.text == "fn")
    if stoks[fi + 2].text != "(":
        raise Undecided("R21: helper %s has generics" % helper_name)
    po, pc = fi + 2, smatch[fi + 2]
    params = []
    has_self = False
    k = po + 1
    cur = []
    depth = 0
    groups = []
    while k < pc:
        tx = stoks[k].text
        if tx in ("(", "[", "<"):
            depth += 1
        elif tx in (")", "]", ">"):
            depth -= 1
        if tx == "," and depth == 0:
            groups.append(cur)
            cur = []
        else:
            cur.append(stoks[k])
        k += 1
    if cur:
        groups.append(cur)
    for gidx, g in enumerate(groups):
        txt = [t.text for t in g]
        if gidx == 0 and "self" in txt and ":" not in txt:
            has_self = True
            continue
        if len(txt) < 3 or txt[1] != ":" and not (txt[0] == "mut" and txt[2] == ":"):
            raise Undecided("R21: helper %s has a non-trivial parameter pattern" % helper_name)
        name = txt[1] if txt[0] == "mut" else txt[0]
        ty = helper_sig[g[txt.index(":") + 1].start:g[-1].end]
        params.append((name, ty, txt[0] == "mut"))
    btoks, _ = _toks(helper_body)
    if any(t.kind == "ident" and t.text == "return" for t in btoks):
        raise Undecided("R21: helper %s contains `return`" % helper_name)
    hits = 0
    # a helper whose own body calls a method of the same name (e.g. `fn lock(&self) { self.inner.lock().unwrap() }`) cannot be
    # told apart from a recursive call by name: not inlined (an inlined copy would be inlined again, for ever)
    if any(b.kind == "ident" and b.text == helper_name and k + 1 < len(btoks) and btoks[k + 1].text == "(" for k, b in enumerate(btoks)):
        raise Undecided("R21: helper %s calls a method of the same name (cannot be inlined by name)" % helper_name)
    while True:
        if hits > 40:
            raise Undecided("R21: helper %s: more than 40 call sites" % helper_name)
        toks, match = _toks(body)
        found = None
        for i, t in enumerate(toks):
            if t.kind == "ident" and t.text == helper_name and i + 1 < len(toks) and toks[i + 1].text == "(" and i >= 1 \
                    and toks[i - 1].text not in (".", "::", "fn") and not has_self:
                # a free helper function called by its plain name
                found = (i, i, match[i + 1], None)
                break
            if t.kind == "ident" and t.text == helper_name and i + 1 < len(toks) and toks[i + 1].text == "(" and i >= 2 \
                    and toks[i - 1].text in (".", "::"):
                # receiver path
                if toks[i - 1].text == "::":
                    if toks[i - 2].text != "Self" or has_self:
                        continue
                    start = i - 2
                    recv = None
                else:
                    if not has_self:
                        continue
                    s0 = i - 2
                    # receiver path: ident(.ident | .tuple-index)*
                    while s0 - 2 >= 0 and toks[s0 - 1].text == "." and toks[s0 - 2].kind in ("ident", "num"):
                        s0 -= 2
                    if toks[s0].kind != "ident" or toks[i - 2].kind not in ("ident", "num"):
                        continue
                    start = s0
                    recv = body[toks[s0].start:toks[i - 2].end]
                found = (start, i, match[i + 1], recv)
                break
        if not found:
            return body, hits
        start, i, close, recv = found
        args = body[toks[i + 1].end:toks[close].start].strip().rstrip(",")
        hb = helper_body
        if recv is not None:
            hb = _apply(hb, [(b.start, b.end, recv) for b in btoks if b.kind == "ident" and b.text == "self"])
        if params:
            one = "," if len(params) == 1 else ""
            binder = "let (%s%s) = (%s%s);" % (", ".join(("mut " if m else "") + n for n, _, m in params), one, args, one)
        else:
            binder = ""
        inner = hb.strip()
        assert inner.startswith("{") and inner.endswith("}")
        rep = "{ %s %s }" % (binder, inner[1:-1])
        body = body[:toks[start].start] + rep + body[toks[close].end:]
        hits += 1


class Piece:
    """A chunk of generated text with its origin (for mapping verifier lines back)."""

    def __init__(self, text, origin):
        self.text = text if text.endswith("\n") else text + "\n"
        self.origin = origin  # ("repo", relpath, first_line, fn) | ("spec", label) | ("gen", label)


def loop_heads(body):
    """Return list of (kw_tok_index, open_brace_index) for while/for/loop in token order."""
    toks, match = _toks(body)
    res = []
    for i, t in enumerate(toks):
        if t.kind == "ident" and t.text in ("while", "for", "loop"):
            if t.text == "for" and i > 0 and toks[i - 1].text in ("impl", ">"):
                continue  # `impl X for Y` / HRTB (not expected in bodies)
            j = i + 1
            while j < len(toks) and toks[j].text != "{":
                if toks[j].text in ("(", "["):
                    j = match[j] + 1
                else:
                    j += 1
            res.append((toks[i].start, toks[j].start))
    return res


class FnItem:
    def __init__(self, repo, spec):
        """spec keys: file, impl (regex on impl header or None), name, ret (name for the return value),
        requires, ensures, loops {ordinal: text}, proofs [(where, anchor, text)], rules {rule: expected_hits},
        attrs [str], math_inc [names], profile_debug (bool), occurrence (int, default 0), trait_impl(bool)"""
        self.spec = spec
        rel = spec["file"]
        self._repo = repo
        src = Source(repo + "/" + rel)
        lo, hi = 0, len(src.toks)
        self.impl_header = None
        if spec.get("mod"):
            blocks = src.find_blocks("mod", spec["mod"], lo, hi)
            if len(blocks) != 1:
                raise Undecided("%s: mod %r found %d times" % (rel, spec["mod"], len(blocks)))
            lo, hi = blocks[0][1] + 1, blocks[0][2]
        self._deep = False
        if spec.get("inside_macro"):
            # the item is part of the body of a macro_rules! definition (its tokens are ordinary Rust apart from `$name` metavariables):
            # narrow the search to that macro's block and look for impl blocks / fns at any nesting depth inside it
            at = [t.text for t in tokenize(spec["inside_macro"])]
            pos = [i for i in range(len(src.toks) - len(at)) if [t.text for t in src.toks[i:i + len(at)]] == at and src.toks[i + len(at)].text == "{"]
            if len(pos) != 1:
                raise Undecided("%s: macro %r found %d times" % (rel, spec["inside_macro"], len(pos)))
            lo, hi = pos[0] + len(at) + 1, src.match[pos[0] + len(at)]
            self._deep = True
        if spec.get("inside_fn"):
            # the item is declared inside the body of another function (a local impl): narrow the search to that body
            oimpl, ofn = spec["inside_fn"]
            outer = []
            for b in src.find_blocks("impl", oimpl, lo, hi):
                outer += src.find_fn(ofn, b[1] + 1, b[2])
            if len(outer) != 1:
                raise Undecided("%s: enclosing fn %s in impl /%s/ found %d times" % (rel, ofn, oimpl, len(outer)))
            lo, hi = outer[0][2] + 1, outer[0][3]
        if spec.get("impl") and self._deep:
            blocks = []
            for i in range(lo, hi):
                if src.toks[i].kind == "ident" and src.toks[i].text == "impl" and src.toks[i - 1].text in ("{", "}", ";", "]"):
                    j = i + 1
                    while j < hi and src.toks[j].text not in ("{", ";"):
                        j = src.match[j] + 1 if src.toks[j].text in ("(", "[") else j + 1
                    if j < hi and src.toks[j].text == "{" and re.search(spec["impl"], " ".join(x.text for x in src.toks[i:j])):
                        blocks.append((i, j, src.match[j]))
            cands = []
            for b in blocks:
                for f in src.find_fn(spec["name"], b[1] + 1, b[2]):
                    cands.append((b, f))
            if len(cands) != 1:
                raise Undecided("%s: fn %s in impl /%s/ (inside macro) found %d times" % (rel, spec["name"], spec["impl"], len(cands)))
            b, f = cands[0]
            self.impl_header = norm(src.span(b[0], b[1] - 1))
            self.impl_header_src = src.span(b[0], b[1] - 1)
            self.default_instantiated = False
        elif spec.get("impl"):
            blocks = [b for b in src.find_blocks("impl", spec["impl"], lo, hi)]
            cands = []
            for b in blocks:
                fns = src.find_fn(spec["name"], b[1] + 1, b[2])
                for f in fns:
                    cands.append((b, f))
            self.default_instantiated = False
            if len(cands) == 0 and spec.get("default_from") and len(blocks) == 1:
                # R25 default-method instantiation: the impl does not define the method, so (language semantics) it gets the
                # trait's default body - copied here from the trait declaration, token for token
                dfile, dtrait = spec["default_from"]
                dsrc = Source(repo + "/" + dfile)
                tb = dsrc.find_blocks("trait", dtrait)
                dfn = []
                for t in tb:
                    dfn += dsrc.find_fn(spec["name"], t[1] + 1, t[2])
                if len(dfn) != 1 or dsrc.toks[dfn[0][2]].text != "{":
                    raise Undecided("%s: default method %s of trait /%s/ found %d times" % (dfile, spec["name"], dtrait, len(dfn)))
                b = blocks[0]
                self.impl_header = norm(src.span(b[0], b[1] - 1))
                self.impl_header_src = src.span(b[0], b[1] - 1)
                self.default_instantiated = True
                src = dsrc
                rel = dfile
                f = dfn[0]
                cands = [(b, f)]
            if len(cands) != 1:
                raise Undecided("%s: fn %s in impl /%s/ found %d times" % (rel, spec["name"], spec["impl"], len(cands)))
            b, f = cands[0]
            if not self.default_instantiated:
                self.impl_header = norm(src.span(b[0], b[1] - 1))
                self.impl_header_src = src.span(b[0], b[1] - 1)
        else:
            if self._deep:
                fns = []
                for i in range(lo, hi):
                    if src.toks[i].kind == "ident" and src.toks[i].text == "fn" and src.toks[i + 1].text == spec["name"]:
                        # enclosing block start: scan back to the previous `{`/`}`/`;` to pick up attributes is unnecessary here
                        j = i + 2
                        while src.toks[j].text != "{":
                            j = src.match[j] + 1 if src.toks[j].text in ("(", "[") else j + 1
                        # free fn = not directly inside an impl block: the caller narrows by uniqueness
                        fns.append((i, i, j, src.match[j]))
                fns = [f for f in fns if not spec.get("deep_skip_impl") or True]
            else:
                fns = src.find_fn(spec["name"], lo, hi)
            if spec.get("sig_has"):
                # several functions of that name (e.g. a private helper and a public method inside a macro body): the one whose
                # signature contains the given text
                want = "".join(spec["sig_has"].split())
                fns = [f for f in fns if want in "".join(src.text[src.toks[f[0]].start:src.toks[f[2]].start].split())]
            if len(fns) != 1:
                raise Undecided("%s: free fn %s found %d times" % (rel, spec["name"], len(fns)))
            f = fns[0]
        s, fi, o, c = f
        self.rel = rel
        self.first_line = src.line_of(src.toks[s].start)
        self.last_line = src.line_of(src.toks[c].end)
        self.sig_src = src.text[src.toks[s].start:src.toks[o].start]
        self.body_src = src.text[src.toks[o].start:src.toks[c].end]
        self.body_first_line = src.line_of(src.toks[o].start)
        if spec.get("closure_body"):
            # R26 closure slice: the body of the block closure that follows the anchor tokens inside this function (e.g. the closure
            # handed to thread::spawn) becomes a free function of its captured variables; the parameter list is given by the
            # sidecar, the body text is the closure's block, token for token
            cb = spec["closure_body"]
            at = [t.text for t in tokenize(cb["after"])]
            found = []
            is_expr = bool(cb.get("expr"))
            for i in range(o, c - len(at)):
                if [t.text for t in src.toks[i:i + len(at)]] == at and (is_expr or src.toks[i + len(at)].text == "{"):
                    found.append(i + len(at))
            if len(found) != 1:
                raise Undecided("%s::%s: closure anchor %r found %d times" % (rel, spec["name"], cb["after"], len(found)))
            bo = found[0]
            self.sig_src = cb["sig"] + " "
            if is_expr:
                # expression closure `f(|x| EXPR)`: EXPR runs up to the `)` that closes the call the closure is an argument of
                # (the anchor's last `(`); the slice is `{ EXPR }`
                par = [k for k in range(bo - len(at), bo) if src.toks[k].text == "("]
                if not par:
                    raise Undecided("%s::%s: expression-closure anchor %r has no `(`" % (rel, spec["name"], cb["after"]))
                pc = src.match[par[-1]]
                self.body_src = "{ " + src.text[src.toks[bo].start:src.toks[pc].start].rstrip() + " }"
            else:
                bc = src.match[bo]
                self.body_src = src.text[src.toks[bo].start:src.toks[bc].end]
            self.body_first_line = src.line_of(src.toks[bo].start)
            self.first_line = self.body_first_line
            self.impl_header = None
            self.closure_sliced = True
        self.name = spec["name"]
        self.rule_hits = {}

    def qualname(self):
        return (self.spec.get("label") or self.name)

    def render(self):
        """Return list of Piece for this function (without the impl wrapper)."""
        sp = self.spec
        sig, body = self.sig_src, self.body_src
        hits = {}
        for hname in sp.get("inline_helpers", []):
            hrecv = None
            if isinstance(hname, tuple):
                hname, hrecv = hname
            def _cands(path, recv=None):
                sx = Source(path)
                cx = [] if recv else sx.find_fn(hname)
                for b in sx.find_blocks("impl", "."):
                    if recv and not re.search(r"\b%s\b" % re.escape(recv), " ".join(t.text for t in sx.toks[b[0]:b[1]])):
                        continue
                    cx += sx.find_fn(hname, b[1] + 1, b[2])
                return sx, cx
            src, cands = _cands(self._repo + "/" + self.rel)
            if not cands:
                # not in the caller's file: a helper added to another file of the same crate (e.g. a method on a type defined there)
                import glob
                crate_src = self._repo + "/" + self.rel.split("/src/")[0] + "/src"
                allc = []
                for path in sorted(glob.glob(crate_src + "/**/*.rs", recursive=True)):
                    if path == self._repo + "/" + self.rel:
                        continue
                    try:
                        sx, cx = _cands(path)
                    except Exception:
                        continue
                    allc += [(sx, c) for c in cx]
                if len(allc) > 1 and hrecv:
                    # several definitions in the crate: keep those in an impl block of the receiver's type
                    allc = []
                    for path in sorted(glob.glob(crate_src + "/**/*.rs", recursive=True)):
                        try:
                            sx, cx = _cands(path, hrecv)
                        except Exception:
                            continue
                        allc += [(sx, c) for c in cx]
                if len(allc) == 1:
                    src, cands = allc[0][0], [allc[0][1]]
                else:
                    raise Undecided("R21: helper fn %s found %d times in the crate of %s" % (hname, len(allc), self.rel))
            if len(cands) != 1:
                raise Undecided("R21: helper fn %s found %d times in %s" % (hname, len(cands), self.rel))
            s0, fi0, o0, c0 = cands[0]
            hsig = src.text[src.toks[s0].start:src.toks[o0].start]
            hbody = src.text[src.toks[o0].start:src.toks[c0].end]
            body, h = inline_helper(body, hname, hsig, hbody)
            hits["R21"] = hits.get("R21", 0) + h
        if sp.get("profile_debug") is not None:
            body, h = r4_cfg_resolve(body, sp["profile_debug"])
            hits["R4"] = h
        if sp.get("nested_items_dropped"):
            # R27 nested-item hoisting: `struct` / `impl` items declared inside this function body are extracted as items of their
            # own (inside_fn=..); their text is removed from the body (item declarations have no run-time effect where they stand)
            toks, match = _toks(body)
            edits = []
            i = 1
            depth_end = match[0]
            while i < depth_end:
                t = toks[i]
                if t.text in ("(", "[", "{"):
                    i = match[i] + 1
                    continue
                if t.kind == "ident" and t.text in ("struct", "impl") and toks[i - 1].text in ("{", "}", ";"):
                    j = i
                    while toks[j].text not in ("{", ";"):
                        if toks[j].text in ("(", "["):
                            j = match[j]
                        j += 1
                    e = match[j] if toks[j].text == "{" else j
                    edits.append((t.start, toks[e].end, ""))
                    hits["R27"] = hits.get("R27", 0) + 1
                    i = e + 1
                    continue
                i += 1
            body = _apply(body, edits)
        for extra in sp.get("pre_rewrites", []):
            # unit-local rewrites that must run before the language desugarings (e.g. a visitor callback turned into a `for` loop)
            body, h = extra(body)
            hits[extra.__name__] = h
        body, h = r2_rate_limit(body)
        hits["R2"] = h
        body, h = r1_drop_log(body)
        hits["R1"] = h
        body, h = r3_for_chain(body)
        hits["R3"] = h
        if sp.get("desugar_question"):
            body, h = r20_question_mark(body)
            hits["R20"] = h
        if sp.get("desugar_for"):
            body, h = r3b_for_desugar(body)
            hits["R3b"] = h
        body, h = r6_bool_or_assign(body)
        hits["R6"] = h
        body, h = r22_bool_then(body)
        hits["R22"] = h
        body, h = r28_is_some_and(body)
        hits["R28"] = h
        if sp.get("math_inc"):
            body, h = r9_math_inc(body, sp["math_inc"])
            hits["R9"] = h
        sig, body, h = r7_mut_self(sig, body)
        hits["R7"] = h
        body, _h = splice_closure_specs(body, sp.get("closures"))
        if sp.get("impl_trait_args"):
            sig, h = r14_impl_trait_args(sig)
            hits["R14"] = h
        for extra in sp.get("extra_rewrites", []):
            body, h = extra(body)
            hits[extra.__name__] = h
        if sp.get("ret_iter"):
            # R23: return-position `impl Iterator<Item = ..>` -> the prelude's stand-in iterator type (named by ret_iter),
            # whose abstract content is the sequence of items it will yield
            m = re.search(r"->\s*impl\s+(?:::std::iter::)?Iterator\s*<", sig)
            if not m:
                raise Undecided("%s::%s: no `-> impl Iterator<..>` return type" % (self.rel, self.name))
            stoks, smatch = _toks(sig)
            end = len(sig)
            depth = 0
            for t in stoks:
                if t.start < m.end():
                    continue
                if t.text in ("<", "(", "["):
                    depth += 1
                elif t.text in (">", ")", "]", ">>"):
                    depth -= len(t.text)
                    if depth < 0:
                        end = t.end
                        break
            sig = sig[:m.start()] + "-> " + sp["ret_iter"] + " " + sig[end:]
            hits["R23"] = 1
        # constructs this Verus models imprecisely (sound, but a proof that depends on them fails for no semantic reason):
        # a failed obligation in a function that contains one is reported as UNDECIDED, never as a violation
        self.imprecise = []
        btoks, bmatch = _toks(body)
        for i, t in enumerate(btoks):
            if t.kind == "str" and i + 1 < len(btoks) and btoks[i + 1].text in ("=>", "|") and i > 0 and btoks[i - 1].text in ("{", ",", "|"):
                self.imprecise.append("string-literal pattern %s" % t.text[:20])
                break
        n_closures = 0
        for i, t in enumerate(btoks):
            if t.text in ("|", "||") and i > 0 and (btoks[i - 1].text in ("(", ",", "=") or (btoks[i - 1].kind == "ident" and btoks[i - 1].text == "move")):
                n_closures += 1
        if n_closures > len(sp.get("closures") or {}):
            self.imprecise.append("%d closure(s) without a spliced contract" % (n_closures - len(sp.get("closures") or {})))
        # a parameter that the body re-binds (`let flags = ..`) while a hint placed in the body mentions it by name: the hint then talks
        # about the wrong binding, and a failure proves nothing about the code
        try:
            stoks, smatch = _toks(sig)
            fi = next(k for k, t in enumerate(stoks) if t.text == "fn")
            po = fi + 2
            if po < len(stoks) and stoks[po].text == "<":
                # skip the generic parameter list (it may contain parentheses: `Item = (&str, &str)`)
                ad = 0
                while po < len(stoks):
                    tx = stoks[po].text
                    if tx != "->" and tx != "=>":
                        ad += tx.count("<") - tx.count(">") if tx in ("<", ">", "<<", ">>") else 0
                    po += 1
                    if ad == 0:
                        break
            po = next(k for k in range(po, len(stoks)) if stoks[k].text == "(")
            pnames, depth = [], 0
            for k in range(po + 1, smatch[po]):
                tx = stoks[k].text
                if tx in ("(", "[", "<"):
                    depth += 1
                elif tx in (")", "]", ">"):
                    depth -= 1
                elif tx == ":" and depth == 0 and stoks[k - 1].kind == "ident":
                    pnames.append(stoks[k - 1].text)
            # `$argN` in a proof hint: the name of the N-th parameter (self not counted) as the signature spells it today, so that a
            # renamed parameter does not turn a start-of-body ghost capture into an unresolved name
            self._arg_names = [pn for pn in pnames if pn != "self"]
            hint_txt = " ".join([pr[2] for pr in sp.get("proofs", []) if pr[0] != "start"] + list((sp.get("loops") or {}).values()))
            for pn in pnames:
                if pn == "self":
                    continue
                if re.search(r"\blet\s+(?:mut\s+)?%s\b" % re.escape(pn), body) and re.search(r"\b%s\b" % re.escape(pn), hint_txt):
                    self.imprecise.append("parameter `%s` is re-bound in the body while a proof hint mentions it" % pn)
        except StopIteration:
            pass
        if sp.get("screen_float_casts") and re.search(r"\bas\s+f(64|32)\b", body):
            # an integer -> float cast left in the text (no rewrite of the unit names it): this Verus gives it an arbitrary value
            self.imprecise.append("float cast `as f64` without a model")
        if getattr(self, "default_instantiated", False):
            hits["R25"] = 1
        if getattr(self, "closure_sliced", False):
            hits["R26"] = 1
        hits = {k: v for k, v in hits.items() if v}
        self.rule_hits = hits
        expected = sp.get("rules", {})
        if sp.get("auto_helper"):
            expected = hits
        # R1 / R2 only remove or guard logging, R3/R3b/R6/R7/R14/R20 are the language's own desugarings: their site
        # counts are recorded, not pinned.  Pinned: rewrites that abstract something (R4 profile, R9 counters, clock ...)
        free = ("R1", "R2", "R3", "R3b", "R6", "R7", "R14", "R20", "R21", "R22", "R25", "R26", "R27", "R28") + tuple(sp.get("unpinned", ()))
        strict = lambda d: {k: v for k, v in d.items() if k not in free}
        if strict(hits) != strict(expected):
            raise Undecided("%s::%s: rewrite sites changed: expected %r, found %r" % (self.rel, self.name, expected, hits))
        # signature: named return, drop pub(crate) noise is fine in verus
        sig = strip_attrs_and_docs(sig).strip()
        for a, b in sp.get("sig_replace", []):
            # type-level only (e.g. `Self::Closed` spelled out when a trait impl is verified as an inherent method)
            if sig.count(a) != 1:
                raise Undecided("%s::%s: signature text %r found %d times" % (self.rel, self.name, a, sig.count(a)))
            sig = sig.replace(a, b)
        if sp.get("ret"):
            toks, match = _toks(sig)
            # find top-level `->`
            arrow = None
            depth = 0
            for i, t in enumerate(toks):
                if t.text in ("(", "[", "{"):
                    depth += 1
                elif t.text in (")", "]", "}"):
                    depth -= 1
                elif t.text == "->" and depth == 0:
                    arrow = i      # the LAST top-level arrow: an earlier one belongs to a `Fn() -> T` bound in the generics
            if arrow is None:
                raise Undecided("%s: no return type to name" % self.name)
            # return type ends at `where` (depth 0) or end
            end = len(sig)
            depth = 0
            for t in toks[arrow + 1:]:
                if t.text in ("(", "[", "{", "<"):
                    depth += 1
                elif t.text in (")", "]", "}", ">"):
                    depth -= 1
                elif t.text == "where" and depth == 0:
                    end = t.start
                    break
            rty = sig[toks[arrow].end:end].strip()
            sig = sig[:toks[arrow].end] + " (%s: %s) " % (sp["ret"], rty) + sig[end:]
        if sp.get("sig_where"):
            # lifetime well-formedness predicates that rustc derives as implied bounds from the argument types but
            # that Verus' transformed signature loses: appended to the where clause (type level only)
            sig = sig.rstrip()
            sig += ("\n    where " if " where " not in sig and "\nwhere" not in sig else ", ") + sp["sig_where"]
        pieces = []
        attrs = list(sp.get("attrs", []))
        if sp.get("loop_context") and loop_heads(body) and not any("loop_isolation" in a for a in attrs):
            # loops see the facts established before them about variables they do not modify (Verus' default isolates a loop from its
            # context, so a local that is merely introduced before a loop - `let check = !self.skip;` - would make a correct body fail)
            attrs.append("#[verifier::loop_isolation(false)]")
            attrs.append("#[verifier::allow_complex_invariants]")
        for a in attrs:
            pieces.append(Piece(a, ("gen", "attr")))
        pieces.append(Piece(sig, ("repo", self.rel, self.first_line, self.qualname())))
        if sp.get("requires"):
            pieces.append(Piece("    requires\n" + _indent(sp["requires"], 8), ("spec", self.qualname() + "::requires")))
        if sp.get("ensures"):
            pieces.append(Piece("    ensures\n" + _indent(sp["ensures"], 8), ("spec", self.qualname() + "::ensures")))
        if sp.get("decreases"):
            pieces.append(Piece("    decreases " + sp["decreases"], ("spec", self.qualname() + "::decreases")))
        # loops & proofs: offset-based insertions into body
        inserts = []  # (offset, text, label)
        if sp.get("unroll_extra_loops") and not sp.get("loops") and not sp.get("n_loops") and loop_heads(body):
            # R32 (refutation-only variant): a function that had no loop when its contract was written now has one.  Each `while C { B }`
            # is replaced by `if C { B verif_loop_cut(); }`: the paths with zero iterations and with one iteration of the new loop
            # are real executions, longer ones are cut off (`verif_loop_cut` ensures false).  Sound for REFUTATIONS only - the
            # result of this variant is never used as a proof (check.py consults it only when the full run is undecided).
            toks, match = _toks(body)
            edits = []
            for i, t in enumerate(toks):
                if t.kind == "ident" and t.text in ("for", "loop") and not (t.text == "for" and i > 0 and toks[i - 1].text in ("impl", ">")):
                    raise Undecided("%s: R32 handles only `while` loops" % self.name)
                if t.kind == "ident" and t.text == "while":
                    j = i + 1
                    while toks[j].text != "{":
                        j = match[j] + 1 if toks[j].text in ("(", "[") else j + 1
                    inner = toks[j + 1:match[j]]
                    if any(x.kind == "ident" and x.text in ("break", "continue", "while", "for", "loop") for x in inner) or toks[i + 1].text == "let":
                        raise Undecided("%s: R32 handles only simple `while` loops (no break / continue / nested loop / while let)" % self.name)
                    edits.append((t.start, t.end, "if"))
                    edits.append((toks[match[j]].start, toks[match[j]].start, " verif_loop_cut(); "))
            body = _apply(body, edits)
            hits["R32"] = len(edits) // 2
            self.bounded_by_unrolling = True
        heads = loop_heads(body)
        for ordinal, txt in sorted(sp.get("loops", {}).items()):
            if ordinal < 1 or ordinal > len(heads):
                raise Undecided("%s: loop #%d not found (%d loops)" % (self.name, ordinal, len(heads)))
            inserts.append((heads[ordinal - 1][1], "\n" + _indent(txt, 12) + "\n        ", "loop%d" % ordinal))
        if len(heads) != sp.get("n_loops", len(sp.get("loops", {}))):
            raise Undecided("%s: number of loops changed: expected %d, found %d" % (
                self.name, sp.get("n_loops", len(sp.get("loops", {}))), len(heads)))
        nbody = _norm_with_offsets(body)
        for pr in sp.get("proofs", []):
            where, anchor, txt = pr[0], pr[1], pr[2]
            if "$arg" in txt:
                _an = getattr(self, "_arg_names", [])
                try:
                    txt = re.sub(r"\$arg(\d+)", lambda m: _an[int(m.group(1))], txt)
                except IndexError:
                    raise Undecided("%s: a proof hint names parameter %s but the signature has %d" % (self.name, txt[txt.index("$arg"):][:6], len(_an)))
            occ = pr[3] if len(pr) > 3 else None
            optional = pr[4] if len(pr) > 4 else False
            if where == "start":
                # right after the opening brace of the function body: ghost captures of the parameters, so that hints further down do
                # not depend on a parameter name that the code may re-bind (shadow)
                inserts.append((body.index("{") + 1, "\n" + _indent(txt, 12) + "\n", "proof@start"))
                continue
            if where == "end":
                # just before the closing brace of the function body
                semi = ""
                if len(nbody) >= 2 and nbody[-2].text not in (";", "}", "{") and "->" not in sig:
                    # R30: the unit-valued tail expression of a function without a return type becomes a statement (`E` -> `E;`),
                    # so that a proof block can follow it
                    semi = ";"
                    hits["R30"] = 1
                inserts.append((len(body.rstrip()) - 1, semi + "\n" + _indent(txt, 12) + "\n", "proof@end"))
                continue
            offs = _find_anchor(nbody, anchor)
            if optional and not offs:
                self.skipped_optional = getattr(self, "skipped_optional", []) + [anchor]
                continue
            if occ is None and len(offs) != 1:
                raise Undecided("%s: proof anchor %r found %d times" % (self.name, anchor, len(offs)))
            if occ is not None and occ >= len(offs):
                raise Undecided("%s: proof anchor %r occurrence %d not found (%d found)" % (self.name, anchor, occ, len(offs)))
            s, e, caps = offs[occ or 0]
            for cname, cval in caps.items():
                txt = txt.replace("$" + cname, cval)      # identifiers captured by `$name` in the anchor
            inserts.append((e if where == "after" else s, "\n" + _indent(txt, 12) + "\n", "proof@" + anchor[:30]))
        inserts.sort()
        pos = 0
        line = self.body_first_line
        for off, txt, label in inserts:
            chunk = body[pos:off]
            if chunk:
                pieces.append(Piece(chunk, ("repo", self.rel, line, self.qualname())))
                # a chunk that does not end in newline shares its last source line with what follows
                line += chunk.count("\n")
            pieces.append(Piece(txt, ("spec", self.qualname() + "::" + label)))
            pos = off
        pieces.append(Piece(body[pos:], ("repo", self.rel, line, self.qualname())))
        return pieces


def _indent(txt, n):
    pad = " " * n
    return "\n".join(pad + l.strip() if l.strip() else "" for l in txt.strip("\n").split("\n"))


def _norm_with_offsets(text):
    toks, _ = _toks(text)
    return toks


def _find_anchor(toks, anchor):
    """Occurrences of the anchor token sequence, as (start, end, captures).  The pseudo-token `___` (three underscores) matches any run
    of tokens up to the first occurrence of the anchor token that follows it (so `let x = y . ___ ;` anchors on that statement whatever
    the call is); `$name` matches one identifier and captures it (the proof text may use `$name`), so a renamed local keeps its hint."""
    atoks = [t.text for t in tokenize(anchor.replace("$", "VERIFCAP_"))]
    res = []
    for i in range(len(toks)):
        k, j, ok = 0, i, True
        caps = {}
        while k < len(atoks):
            if atoks[k] == "___":
                nxt = atoks[k + 1] if k + 1 < len(atoks) else None
                depth = 0
                while j < len(toks) and not (depth == 0 and toks[j].text == nxt):
                    if toks[j].text in ("(", "[", "{"):
                        depth += 1
                    elif toks[j].text in (")", "]", "}"):
                        depth -= 1
                        if depth < 0:
                            break
                    j += 1
                if j >= len(toks) or depth < 0:
                    ok = False
                    break
                k += 1
                continue
            if atoks[k].startswith("VERIFCAP_"):
                if j >= len(toks) or toks[j].kind != "ident":
                    ok = False
                    break
                caps[atoks[k][len("VERIFCAP_"):]] = toks[j].text
                j += 1
                k += 1
                continue
            if j >= len(toks) or toks[j].text != atoks[k]:
                ok = False
                break
            j += 1
            k += 1
        if ok and j > i:
            res.append((toks[i].start, toks[j - 1].end, caps))
    return res


class StructItem:
    def __init__(self, repo, spec):
        """spec keys: file, name, profile_debug, attrs, rules"""
        rel = spec["file"]
        src = Source(repo + "/" + rel)
        lo, hi = 0, len(src.toks)
        if spec.get("mod"):
            blocks = src.find_blocks("mod", spec["mod"], lo, hi)
            if len(blocks) != 1:
                raise Undecided("%s: mod %r found %d times" % (rel, spec["mod"], len(blocks)))
            lo, hi = blocks[0][1] + 1, blocks[0][2]
        if spec.get("inside_fn"):
            # the struct is declared inside the body of a function: narrow the search to that body
            oimpl, ofn = spec["inside_fn"]
            outer = []
            for b in src.find_blocks("impl", oimpl, lo, hi):
                outer += src.find_fn(ofn, b[1] + 1, b[2])
            if len(outer) != 1:
                raise Undecided("%s: enclosing fn %s in impl /%s/ found %d times" % (rel, ofn, oimpl, len(outer)))
            lo, hi = outer[0][2] + 1, outer[0][3]
        r = src.find_struct(spec["name"], lo, hi)
        if r is None:
            raise Undecided("%s: struct %s not found" % (rel, spec["name"]))
        s, i, j, end = r
        s = src.attrs_before(s, lo)
        self.rel, self.name, self.spec = rel, spec["name"], spec
        self.first_line = src.line_of(src.toks[s].start)
        self.last_line = src.line_of(src.toks[end].end)
        self.src = src.text[src.toks[s].start:src.toks[end].end]
        self.rule_hits = {}

    def qualname(self):
        return "struct " + self.name

    def render(self):
        txt = self.src
        hits = {}
        if self.spec.get("profile_debug") is not None:
            txt, h = r4_cfg_resolve(txt, self.spec["profile_debug"])
            hits["R4"] = h
        for a, b in self.spec.get("text_replace", []):
            # unit-local, exact-text type-level replacements in a struct declaration (listed and pinned per unit)
            hits["T:" + a] = txt.count(a)
            txt = txt.replace(a, b)
        if self.spec.get("feature_on"):
            # R4f: `#[cfg(feature = "F")]` on the item resolved for a build with feature F enabled (stated per unit)
            pat = r'#\[cfg\(feature = "%s"\)\]\s*' % re.escape(self.spec["feature_on"])
            hits["R4f"] = len(re.findall(pat, txt))
            txt = re.sub(pat, "", txt)
        hits = {k: v for k, v in hits.items() if v}
        self.rule_hits = hits
        if hits != self.spec.get("rules", {}):
            raise Undecided("struct %s: rewrite sites changed: expected %r, found %r" % (self.name, self.spec.get("rules", {}), hits))
        txt = strip_attrs_and_docs(txt, self.spec.get("keep_derive", False))
        txt = r8_pub_fields(txt)
        if self.spec.get("structural"):
            # R5: the derived PartialEq of a field-less enum / plain struct is structural equality
            if "#[derive(" not in txt or "PartialEq" not in txt:
                raise Undecided("struct %s: no derive(PartialEq) to mark Structural" % self.name)
            txt = txt.replace("#[derive(", "#[derive(Structural, ", 1)
        pieces = [Piece(a, ("gen", "attr")) for a in self.spec.get("attrs", [])]
        pieces.append(Piece(txt, ("repo", self.rel, self.first_line, self.qualname())))
        return pieces

    def fields(self):
        """[(name, type_text)] of a named-field struct (after cfg resolution)."""
        txt = self.src
        if self.spec.get("profile_debug") is not None:
            txt, _ = r4_cfg_resolve(txt, self.spec["profile_debug"])
        txt = strip_attrs_and_docs(txt)
        toks, match = _toks(txt)
        j = 0
        while toks[j].text != "{":
            j += 1
        c = match[j]
        out = []
        k = j + 1
        while k < c:
            # [pub] name : type ,
            if toks[k].text == "pub":
                k += 1
                if toks[k].text == "(":
                    k = match[k] + 1
            name = toks[k].text
            assert toks[k + 1].text == ":", "field parse"
            s = k + 2
            e = s
            depth = 0
            while e < c:
                tx = toks[e].text
                if tx in ("(", "["):
                    e = match[e] + 1
                    continue
                if tx == "<":
                    depth += 1
                elif tx == ">":
                    depth -= 1
                elif tx == ">>":
                    depth -= 2
                elif tx == "," and depth == 0:
                    break
                e += 1
            out.append((name, norm(txt[toks[s].start:toks[e - 1].end])))
            k = e + 1
        return out
