"""Kani harness groups. Each group = one `cargo kani` invocation on one crate of the scratch copy.
harness keys: name, complete (True = loop-free or structurally bounded with unwinding assertions => proof;
False = bounded stand-in), bound (text), tier, props, targets (functions under contract), covers (expected #cover!s)."""

GROUPS = {
    "emf_buf": dict(
        crate="metrique-writer-format-emf",
        prefix="buf::verif_kani::",
        modules={"metrique-writer-format-emf/src/buf.rs": "kani/emf/buf.rs"},
        target_files="metrique-writer-format-emf/src/buf.rs",
        props=["C16"],
        harnesses=[
            dict(name="advance_slices_1", complete=True, targets=["advance_slices"], covers=0, tier="quick",
                 bound="1 slice, symbolic length 0..=4 and contents; unwinding assertions on"),
            dict(name="advance_slices_2", complete=True, targets=["advance_slices"], covers=1, tier="quick",
                 bound="2 slices"),
            dict(name="advance_slices_3", complete=True, targets=["advance_slices"], covers=1, tier="quick",
                 bound="3 slices (= SmallVec<[_;3]> call site)"),
            dict(name="advance_slices_5", complete=True, targets=["advance_slices"], covers=1, tier="thorough", timeout=900,
                 bound="5 slices (= SmallVec<[_;5]> call site)"),
            dict(name="advance_slices_overrun_panics", complete=True, should_panic=True, targets=["advance_slices"], tier="quick"),
            dict(name="write_all_vectored_scripted_1", complete=False, targets=["write_all_vectored"], covers=2, tier="off", timeout=3000,
                 bound="1 slice x <= 2 bytes, <= 3 writer calls (accept any k / Interrupted / Ok(0) / hard error, symbolic per call)"),
            dict(name="write_all_vectored_scripted_2", complete=False, targets=["write_all_vectored"], covers=2, tier="off", timeout=3000,
                 bound="2 slices x <= 2 bytes, <= 3 writer calls (accept any k / Interrupted / Ok(0) / hard error, symbolic per call)"),
            dict(name="write_all_vectored_scripted_3", complete=False, targets=["write_all_vectored"], covers=2, tier="off", timeout=1500,
                 bound="3 slices x <= 2 bytes, <= 3 writer calls"),
        ],
    ),
    "emf_num": dict(
        crate="metrique-writer-format-emf",
        prefix="emf::verif_kani::",
        modules={"metrique-writer-format-emf/src/emf.rs": "kani/emf/emf.rs"},
        drop_log=["metrique-writer-format-emf/src/emf.rs"],
        target_files="metrique-writer-format-emf/src/emf.rs",
        jobs=14,
        harnesses=[
            dict(name="clamp_to_finite_all_doubles", complete=True, props=["C02", "C03"], targets=["clamp_to_finite"], covers=2, uses_stubs=True,
                 bound="all 2^64 doubles, loop-free"),
        ] + [
            dict(name="rate_binade_%02d" % e, complete=True, props=["C12"], targets=["rate_to_n_alpha", "rate_to_n"], covers=1,
                 tier="quick" if e in (0, 1, 10, 23, 40, 51) else "thorough", timeout=300,
                 bound="all f32 rates in (2^-%d, 2^-%d], all 2^64 draws; loop-free" % (e + 1, e)) for e in range(52)
        ] + [
            dict(name="rate_to_n_decision_all_rates_all_draws", complete=True, props=["C12"], targets=["rate_to_n"], covers=2, timeout=600, uses_stubs=True,
                 bound="all f32 rates in (0,1], all 2^64 draws, any (n, alpha) returned by the stubbed rate_to_n_alpha; loop-free"),
            dict(name="saturation_threshold_is_2_pow_minus_63", complete=True, props=["C12"], targets=["rate_to_n"]),
        ],
    ),
    "writer_sample": dict(
        crate="metrique-writer",
        prefix="sample::verif_kani::",
        modules={"metrique-writer/src/sample/mod.rs": "kani/writer/sample_mod.rs"},
        target_files="metrique-writer/src/sample/mod.rs",
        props=["C12"],
        harnesses=[
            dict(name="fixed_fraction_format_all_rates_all_draws", complete=True, targets=["FixedFractionSample::format"], covers=2,
                 bound="all f32 rates in (0,1] x all 2^32 draws; loop-free"),
            dict(name="fixed_fraction_rejects_bad_rate", complete=True, should_panic=True, targets=["FixedFractionSample::with_rng"]),
        ],
    ),
    "writer_congress": dict(
        crate="metrique-writer",
        prefix="sample::congress::verif_kani::",
        modules={"metrique-writer/src/sample/congress.rs": "kani/writer/congress.rs"},
        target_files="metrique-writer/src/sample/congress.rs",
        props=["C12"],
        harnesses=[
            dict(name="ema_add_sample_counter_step", complete=True, targets=["ExpMovingAverage::add_sample"], timeout=300,
                 bound="any state with samples<=16, any f32 value and sample; loop-free"),
            dict(name="ema_first_sample_is_taken_as_is", complete=True, targets=["ExpMovingAverage::add_sample"], timeout=300),
            dict(name="group_state_update_and_retain_step", complete=True, targets=["GroupState::update_and_retain"], covers=1, timeout=900,
                 bound="any state satisfying the invariant; loop-free"),
            dict(name="group_state_record_observation", complete=True, targets=["GroupState::record_observation"]),
        ],
    ),
    "core_unit": dict(
        crate="metrique-writer-core",
        prefix="unit::verif_kani::",
        modules={"metrique-writer-core/src/unit.rs": "kani/core/unit.rs"},
        target_files="metrique-writer-core/src/unit.rs",
        props=["C19"],
        jobs=14,
        harnesses=[
            dict(name="ratio_from_" + f, complete=True, targets=["Convert::RATIO"], bound="From = " + f + ", To = all 20 bit/byte(/second) tags; constants") for f in ['byte', 'kilobyte', 'megabyte', 'gigabyte', 'terabyte', 'bit', 'kilobit', 'megabit', 'gigabit', 'terabit', 'byte_ps', 'kilobyte_ps', 'megabyte_ps', 'gigabyte_ps', 'terabyte_ps', 'bit_ps', 'kilobit_ps', 'megabit_ps', 'gigabit_ps', 'terabit_ps']
        ] + [
            dict(name="ratio_time_all_pairs", complete=True, targets=["Convert::RATIO"], bound="all 9 ordered pairs of time tags"),
            dict(name="ratio_none_to_any", complete=True, targets=["Convert::RATIO"]),
            dict(name="tag_units_are_the_declared_ones", complete=True, targets=["UnitTag::UNIT"]),
            dict(name="convert_structure_all_observations", complete=True, targets=["Convert::convert"], timeout=600,
                 bound="all observations (all u64 / f64 payloads) for 7 representative pairs: variant mapping, occurrences, bit-identity when ratio is 1; loop-free"),
            dict(name="convert_values_on_probes", complete=False, targets=["Convert::convert"], timeout=600,
                 bound="6 unsigned + 6 float + 6 repeated concrete probe values (incl. 2^53+1, u64::MAX, 1e300, subnormal) for 8 pairs; the float product for ALL values is out of CBMC's reach"),
            dict(name="with_unit_checks_then_converts", complete=True, targets=["WithUnit::write"], timeout=600, uses_stubs=True,
                 bound="honest / lying-unit / string values; structure symbolic, payload on 3 concrete probes"),
        ],
    ),
    "timers_shared": dict(
        crate="metrique",
        prefix="timers::verif_kani::",
        modules={"metrique/src/timers.rs": "kani/metrique/timers.rs"},
        target_files="metrique/src/timers.rs",
        props=["C18"],
        jobs=8,
        harnesses=[dict(name=n, complete=True, targets=["OwnedTimerGuard", "SharedDuration", "MaybeGuardedDuration::shared_cloned", "Stopwatch::clear/close"], timeout=600,
                        bound="symbolic total (Option) and spans (u32 seconds + nanos); loop-free; guards built already stopped (no clock)") for n in ['shared_cloned_keeps_total', 'owned_guard_drop_adds_span_once', 'owned_guard_stop_returns_span_and_adds_once', 'owned_guard_discard_adds_nothing', 'owned_guard_overwrite_replaces_total', 'two_live_owned_guards_both_count', 'clear_with_live_owned_guard', 'borrowed_guard_on_shared_stopwatch', 'borrowed_overwrite_with_live_owned_guard', 'borrowed_discard_with_live_owned_guard']],
    ),
    "core_boxed": dict(
        crate="metrique-writer-core",
        prefix="entry::boxed::verif_kani::",
        modules={"metrique-writer-core/src/entry/boxed.rs": "kani/core/boxed.rs"},
        target_files="metrique-writer-core/src/entry/boxed.rs",
        props=["C15"],
        mem_gb=20,
        harnesses=[
            dict(name="box_entry_is_transparent", complete=False, targets=["BoxEntry::write", "EntryWriterToDyn", "EntryWriterFromDyn", "ValueWriterToDyn", "ValueWriterFromDyn"],
                 covers=1, timeout=900, tier="quick",
                 bound="one entry: optional timestamp, one metric with 0..=3 symbolic observations written through exact / inexact / take iterators, optional dimension, optional string value"),
        ],
    ),
}
