"""Unit `mrs` (C20): the sequential half of the metrics.rs bridge readout
(metrique-metricsrs/src/generic.rs `readout`, metrique-metricsrs/src/metrics_histogram.rs `record` / `drain` / `midpoint`).

readout: the three registry visitor callbacks are closures that push into captured vectors (not supported by this Verus);
rewrite V1 turns `registry.visit_X(|k, v| { BODY });` into `for (k, v) in verif_visit_X(registry) { BODY }` (a visitor calls
its callback once per registered metric; the stand-in iterator yields exactly the registered pairs).  Proved: every registered
counter is swapped to zero exactly once and the value swapped out is what is reported (unless zero and zero counters are
suppressed); every gauge is loaded once and reported; every histogram is drained once and reported; nothing else is reported.
That the swap / drain are atomic against concurrent updates is the dependency's business (assumed)."""
import re

NAME = "mrs"
PROPERTIES = ["C20"]
G = "metrique-metricsrs/src/generic.rs"
MH = "metrique-metricsrs/src/metrics_histogram.rs"


def v1_visitor_to_loop(text):
    """V1: registry.visit_X(|a, b| { BODY });  ->  for (a, b) in verif_visit_X(registry) { BODY }"""
    from vf.extract import _toks
    hits = 0
    while True:
        toks, match = _toks(text)
        for i, t in enumerate(toks):
            if t.text == "registry" and toks[i + 1].text == "." and toks[i + 2].text.startswith("visit_") and toks[i + 3].text == "(" \
                    and toks[i + 4].text == "|" and toks[i + 6].text == "," and toks[i + 8].text == "|" and toks[i + 9].text == "{":
                close = match[i + 9]
                if toks[close + 1].text != ")" or toks[close + 2].text != ";":
                    continue
                a, b = toks[i + 5].text, toks[i + 7].text
                body = text[toks[i + 9].start:toks[close].end]
                # a `return;` of the callback ends this visit only: it is the loop's `continue`
                body = re.sub(r"\breturn;", "continue;", body)
                text = text[:t.start] + "for (%s, %s) in verif_%s(registry) %s" % (a, b, toks[i + 2].text, body) + text[toks[close + 2].end:]
                hits += 1
                break
        else:
            return text, hits


def v2_sort(text):
    """V2: X.sort_by(|u, v| u.0.cmp(&v.0));  ->  verif_sort_by_key(&mut X);   (a sorted permutation by key)"""
    pat = r"\b(\w+)\.sort_by\(\|u, v\| u\.0\.cmp\(&v\.0\)\);"
    n = len(re.findall(pat, text))
    return re.sub(pat, r"verif_sort_by_key(&mut \1);", text), n


PRELUDE = r'''
use std::collections::HashMap;
pub enum Ordering { Relaxed }
pub uninterp spec fn f64_of_bits(b: u64) -> f64;
pub assume_specification[ f64::from_bits ](b: u64) -> (r: f64) ensures r == f64_of_bits(b);
pub mod metrique_writer_core { #[verifier::external_body] pub struct Unit { _p: u8 } }
pub mod metrique_timesource {
    use vstd::prelude::*;
    #[verifier::external_body] pub struct SystemTime { _p: u8 }
    #[verifier::external_body] pub struct TimeSource { _p: u8 }
    impl TimeSource { #[verifier::external_body] pub fn system_time(&self) -> SystemTime { unimplemented!() } }
    #[verifier::external_body] pub fn time_source() -> TimeSource { unimplemented!() }
}
#[verifier::external_body] pub struct Key { _p: u8 }
impl Clone for Key { #[verifier::external_body] fn clone(&self) -> (r: Key) ensures r == *self { unimplemented!() } }
pub struct Bucket { pub value: u32, pub count: u32 }

// ---- the registry's atomic cells (assumed linearizable; what one call did is an effect witness) --------------------------
#[verifier::external_body] pub struct Counter { _p: u8 }
#[verifier::external_body] pub struct Gauge { _p: u8 }
#[verifier::external_body] pub struct HistogramCell { _p: u8 }
pub uninterp spec fn swapped_out(c: &Counter, new: u64, old: u64) -> bool;
pub uninterp spec fn loaded(g: &Gauge, bits: u64) -> bool;
pub uninterp spec fn drained(h: &HistogramCell, buckets: Seq<Bucket>) -> bool;
impl Counter {
    // AtomicU64::swap: stores `val`, returns what was there - no increment can fall between the two
    #[verifier::external_body]
    pub fn swap(&self, val: u64, order: Ordering) -> (r: u64) ensures swapped_out(self, val, r) { unimplemented!() }
    // a plain load leaves the value in place (the next readout would report it again)
    #[verifier::external_body]
    pub fn load(&self, order: Ordering) -> (r: u64) { unimplemented!() }
    #[verifier::external_body]
    pub fn store(&self, val: u64, order: Ordering) { unimplemented!() }
}
impl Gauge {
    #[verifier::external_body]
    pub fn load(&self, order: Ordering) -> (r: u64) ensures loaded(self, r) { unimplemented!() }
}
impl HistogramCell {
    #[verifier::external_body]
    pub fn drain(&self) -> (r: Vec<Bucket>) ensures drained(self, r@) { unimplemented!() }
}
#[verifier::external_body] pub struct Registry { _p: u8 }
impl Registry {
    pub uninterp spec fn counters(&self) -> Seq<(Key, Counter)>;
    pub uninterp spec fn gauges(&self) -> Seq<(Key, Gauge)>;
    pub uninterp spec fn histograms(&self) -> Seq<(Key, HistogramCell)>;
}
// V1: a visitor calls its callback once for every registered metric
#[verifier::external_body]
#[verifier::reject_recursive_types(T)]
pub struct VisitIter<'r, T> { _p: &'r T }
impl<'r, T> VisitIter<'r, T> {
    pub uninterp spec fn rest(&self) -> Seq<(Key, T)>;
    #[verifier::external_body]
    pub fn next(&mut self) -> (r: Option<(&'r Key, &'r T)>)
        ensures
            old(self).rest().len() == 0 ==> r is None && final(self).rest() == old(self).rest(),
            old(self).rest().len() > 0 ==> r is Some && *(r->0).0 == old(self).rest()[0].0 && *(r->0).1 == old(self).rest()[0].1
                && final(self).rest() == old(self).rest().skip(1),
    { unimplemented!() }
}
pub fn verif_iter<'r, T>(i: VisitIter<'r, T>) -> (r: VisitIter<'r, T>) ensures r == i { i }
#[verifier::external_body] pub fn verif_visit_counters<'r>(r: &'r Registry) -> (it: VisitIter<'r, Counter>) ensures it.rest() == r.counters() { unimplemented!() }
#[verifier::external_body] pub fn verif_visit_gauges<'r>(r: &'r Registry) -> (it: VisitIter<'r, Gauge>) ensures it.rest() == r.gauges() { unimplemented!() }
#[verifier::external_body] pub fn verif_visit_histograms<'r>(r: &'r Registry) -> (it: VisitIter<'r, HistogramCell>) ensures it.rest() == r.histograms() { unimplemented!() }
// V2: sort by key - a permutation
#[verifier::external_body]
pub fn verif_sort_by_key<V>(v: &mut Vec<(Key, V)>) ensures final(v)@.to_multiset() == old(v)@.to_multiset(), final(v)@.len() == old(v)@.len() { unimplemented!() }

pub struct MetricAccumulatorEntry {
    pub counters: Vec<(Key, u64)>,
    pub gauges: Vec<(Key, f64)>,
    pub histograms: Vec<(Key, Vec<Bucket>)>,
    pub units: HashMap<String, metrique_writer_core::Unit>,
    pub timestamp: Option<metrique_timesource::SystemTime>,
}
pub struct VerifRecorder024 {}

pub open spec fn gauges_ok(g: Seq<(Key, f64)>, reg: Seq<(Key, Gauge)>) -> bool {
    g.len() <= reg.len() && forall|i: int| 0 <= i < g.len() ==> (#[trigger] g[i]).0 == reg[i].0
        && exists|b: u64| #[trigger] loaded(&reg[i].1, b) && g[i].1 == f64_of_bits(b)
}
pub open spec fn hists_ok(h: Seq<(Key, Vec<Bucket>)>, reg: Seq<(Key, HistogramCell)>) -> bool {
    h.len() <= reg.len() && forall|i: int| 0 <= i < h.len() ==> (#[trigger] h[i]).0 == reg[i].0 && drained(&reg[i].1, h[i].1@)
}
// C20 (sequential): what one readout reports, given the value each counter's swap returned
pub open spec fn counter_report(reg: Seq<(Key, Counter)>, vals: Seq<u64>, emit_zero: bool) -> Seq<(Key, u64)>
    decreases reg.len()
{
    if reg.len() == 0 || vals.len() != reg.len() { Seq::<(Key, u64)>::empty() }
    else {
        let rest = counter_report(reg.drop_last(), vals.drop_last(), emit_zero);
        if emit_zero || vals.last() != 0 { rest.push((reg.last().0, vals.last())) } else { rest }
    }
}
'''

ITEMS = [
    dict(kind="fn", file=G, mod="impls", impl=r"^impl MetricsRsVersion for dyn metrics_024 :: Recorder$", name="readout", ret="r", label="readout",
         impl_header_override="impl VerifRecorder024",
         sig_replace=[("&Self::AtomicStorageWithHistogramRegistry", "&Registry"), ("MetricAccumulatorEntry<Self>", "MetricAccumulatorEntry")],
         impl_trait_args=True, rules={"R14": 1, "v1_visitor_to_loop": 3, "v2_sort": 3}, pre_rewrites=[v1_visitor_to_loop], extra_rewrites=[v2_sort], desugar_for=True,
         attrs=["#[verifier::exec_allows_no_decreases_clause]"],
         requires="units.requires(()),",
         ensures="""
            // C20: every registered counter is swapped to zero exactly once, and the value swapped out is what this readout reports
            // for it - so no increment is reported twice or lost (given that swap is atomic) ...
            exists|vals: Seq<u64>| vals.len() == registry.counters().len()
                && (forall|i: int| 0 <= i < vals.len() ==> swapped_out(&registry.counters()[i].1, 0, #[trigger] vals[i]))
                && r.counters@.to_multiset() == counter_report(registry.counters(), vals, emit_zero_counters).to_multiset(),      // OBL every_counter_swapped_once_and_reported
            // ... every gauge is loaded once and reported, every histogram is drained once and reported, nothing else
            exists|g0: Seq<(Key, f64)>| g0.len() == registry.gauges().len() && r.gauges@.to_multiset() == g0.to_multiset()
                && gauges_ok(g0, registry.gauges()),                  // OBL every_gauge_loaded_once_and_reported
            exists|h0: Seq<(Key, Vec<Bucket>)>| h0.len() == registry.histograms().len() && r.histograms@.to_multiset() == h0.to_multiset()
                && hists_ok(h0, registry.histograms()),                                                              // OBL every_histogram_drained_once_and_reported
         """,
         loops={
             1: """
            invariant
                verif_done + verif_it0.rest().len() == registry.counters().len(),
                verif_it0.rest() == registry.counters().skip(verif_done as int),
                verif_vals.len() == verif_done,
                forall|i: int| 0 <= i < verif_vals.len() ==> swapped_out(&registry.counters()[i].1, 0, #[trigger] verif_vals[i]),
                counters@ == counter_report(registry.counters().take(verif_done as int), verif_vals, emit_zero_counters),
            ensures
                verif_it0.rest().len() == 0,
             """,
             2: """
            invariant
                gauges@.len() + verif_it1.rest().len() == registry.gauges().len(),
                verif_it1.rest() == registry.gauges().skip(gauges@.len() as int),
                gauges_ok(gauges@, registry.gauges()),
            ensures
                verif_it1.rest().len() == 0,
             """,
             3: """
            invariant
                histograms@.len() + verif_it2.rest().len() == registry.histograms().len(),
                verif_it2.rest() == registry.histograms().skip(histograms@.len() as int),
                hists_ok(histograms@, registry.histograms()),
            ensures
                verif_it2.rest().len() == 0,
             """,
         },
         proofs=[
             ("before", "{ let mut verif_it0 = verif_iter ( verif_visit_counters ( registry ) ) ;",
              """let ghost mut verif_done: nat = 0; let ghost mut verif_vals = Seq::<u64>::empty();
                 proof { assert(registry.counters().skip(0) =~= registry.counters());
                         assert(registry.counters().take(0) =~= Seq::<(Key, Counter)>::empty()); }"""),
             ("after", "let $v = counter . ___ ;",
              """proof {
                    let reg = registry.counters();
                    assert(reg.take(verif_done as int + 1).drop_last() =~= reg.take(verif_done as int));
                    assert(verif_vals.push($v).drop_last() =~= verif_vals);
                    verif_vals = verif_vals.push($v);
                    verif_done = verif_done + 1;
                    assert(reg.skip(verif_done as int - 1).skip(1) =~= reg.skip(verif_done as int));
                 }"""),
             ("before", "{ let mut verif_it1 = verif_iter ( verif_visit_gauges ( registry ) ) ;",
              "proof { assert(registry.gauges().skip(0) =~= registry.gauges()); }"),
             ("before", "{ let mut verif_it2 = verif_iter ( verif_visit_histograms ( registry ) ) ;",
              "proof { assert(registry.histograms().skip(0) =~= registry.histograms()); }"),
             ("after", "Some ( ( key , gauge ) ) => {",
              "proof { let reg = registry.gauges(); assert(reg.skip(gauges@.len() as int).skip(1) =~= reg.skip(gauges@.len() as int + 1)); }"),
             ("after", "Some ( ( key , histogram ) ) => {",
              "proof { let reg = registry.histograms(); assert(reg.skip(histograms@.len() as int).skip(1) =~= reg.skip(histograms@.len() as int + 1)); }"),
             ("before", "verif_sort_by_key ( & mut gauges ) ;", "let ghost verif_g0 = gauges@;"),
             ("before", "verif_sort_by_key ( & mut histograms ) ;", "let ghost verif_h0 = histograms@;"),
             ("before", "verif_sort_by_key ( & mut counters ) ;",
              "proof { assert(registry.counters().take(verif_done as int) =~= registry.counters()); }"),
         ]),
]
POSTLUDE = ""
CANARY = dict(fn="readout", replace=("&& r.counters@.to_multiset() == counter_report(", "&& r.counters@.to_multiset() != counter_report("))
