// Native replay search for unit emf_cfg (C08): does the formatter built by each documented
// "validations on" constructor reject the listed malformed entries, in the profile under test?
use metrique_writer::{Entry, EntryWriter, format::Format};
use metrique_writer_format_emf::Emf;

struct Bad(&'static str);
impl Entry for Bad {
    fn write<'a>(&'a self, w: &mut impl EntryWriter<'a>) {
        w.timestamp(std::time::SystemTime::UNIX_EPOCH);
        match self.0 {
            "duplicate-field" => { w.value("A", &1u64); w.value("A", &2u64); }
            "duplicate-string" => { w.value("A", "x"); w.value("A", "y"); }
            "two-timestamps" => { w.timestamp(std::time::SystemTime::UNIX_EPOCH); w.value("A", &1u64); }
            "empty-name" => { w.value("", &1u64); }
            "reserved-name" => { w.value("_aws", &1u64); }
            "missing-dimension" => { w.value("A", &1u64); }
            _ => unreachable!(),
        }
    }
}

#[test]
fn verif_replay_search() {
    let profile = if cfg!(debug_assertions) { "debug" } else { "release" };
    let mut n = 0;
    for defect in ["duplicate-field", "duplicate-string", "two-timestamps", "empty-name", "reserved-name", "missing-dimension"] {
        let dims = if defect == "missing-dimension" { vec![vec!["Dim".to_string()]] } else { vec![vec![]] };
        let mut emf = Emf::all_validations("NS".into(), dims);
        let mut out = Vec::new();
        let r = emf.format(&Bad(defect), &mut out);
        n += 1;
        if r.is_ok() || !out.is_empty() {
            println!("FAILING_INPUT: constructor=Emf::all_validations profile={profile} entry={defect}");
            println!("FAILURE: malformed entry accepted: result={r:?} output={:?}", String::from_utf8_lossy(&out));
            panic!("postcondition violated");
        }
    }
    println!("SEARCHED: {n} malformed entries x Emf::all_validations in profile {profile}, all rejected");
}
