"""Unit `hist_shared` (C11): the Capturer inside SharedHistogram::add_value (metrique-aggregation/src/histogram.rs) - the thread-safe
histogram's capture loop records every observation of the distribution exactly once, a Repeated one `occurrences` times at its mean.

Type-level deviation (stated): the real Capturer holds `&'a S` and SharedAggregationStrategy records through `&self` (atomics inside);
here the Capturer is declared with `&'a mut S` and the stand-in trait's methods take `&mut self`, so that the sequence of recorded
values is ordinary state.  One add_value call is therefore verified as if it ran alone: interleavings with other threads' add_value
calls are not modelled (they commute on the strategy: C11's shared half is NOT decided here, see DESIGN).  The method text is the real text."""
from . import hist as _h

NAME = "hist_shared"
PROPERTIES = ["C11"]
H = _h.H

PRELUDE = _h.PRELUDE + r'''
pub trait SharedAggregationStrategy {
    spec fn flat(&self) -> Seq<f64>;
    // default method of the real trait: `self.record_many(value, 1)`
    fn record(&mut self, value: f64)
        ensures final(self).flat() == old(self).flat().push(value);
    fn record_many(&mut self, value: f64, count: u64)
        ensures final(self).flat() == old(self).flat() + rep(value, count as nat);
}
'''
_IN = (r"^impl < T , S : SharedAggregationStrategy > SharedHistogram < T , S >$", "add_value")
_IMPL = r"^impl < 'b , S : SharedAggregationStrategy > ValueWriter for Capturer < 'b , S >$"

ITEMS = [
    dict(kind="struct", file="metrique-writer-core/src/value/mod.rs", name="Observation"),
    dict(kind="raw", label="Capturer (declared inside SharedHistogram::add_value; &'a S there)", text="pub struct Capturer<'a, S>(pub &'a mut S);\n"),
    dict(kind="fn", file=H, inside_fn=_IN, impl=_IMPL, name="string", label="SharedCapturer::string",
         ensures="final(self.0).flat() == old(self.0).flat(),"),
    dict(kind="fn", file=H, inside_fn=_IN, impl=_IMPL, name="metric", label="SharedCapturer::metric",
         impl_trait_args=True, rules={"R14": 2, "rf_as_f64": 2}, desugar_for=True, extra_rewrites=[_h.rf_as_f64], unpinned=["rf_as_f64"],
         attrs=["#[verifier::exec_allows_no_decreases_clause]"],
         ensures="""
            // C11 (shared histogram): every observation handed to the histogram is recorded exactly once, in order
            final(self.0).flat() == old(self.0).flat() + capture(distribution.elems()),                 // OBL shared_capture_records_every_observation_once
         """,
         loops={1: _h.CAPTURE_LOOP},
         proofs=_h._CAP_PROOFS + [
             ("before", "match obs {",
              """proof {
                    assert(verif_consumed.push(obs).drop_last() =~= verif_consumed);
                    verif_consumed = verif_consumed.push(obs);
                    assert(verif_consumed + verif_it0.rest() =~= verif_all);
                 }"""),
             ("after", "_ => { } }",
              """proof { assert((*self.0).flat() =~= verif_flat0 + capture(verif_consumed)); }"""),
             ("end", None,
              """proof { assert(verif_consumed =~= verif_all); }"""),
         ]),
    dict(kind="fn", file=H, inside_fn=_IN, impl=_IMPL, name="error", label="SharedCapturer::error",
         ensures="final(self.0).flat() == old(self.0).flat(),"),
]
POSTLUDE = ""
CANARY = dict(fn="SharedCapturer::metric", replace=("+ capture(distribution.elems()),", "+ capture(distribution.elems()).drop_last(),"))
