"""Unit `hist_exp` (C11): the exponential strategy's glue around the `histogram` dependency
(metrique-aggregation/src/histogram.rs): ExponentialAggregationStrategy::{record_many, drain}, scale_up, scale_down.

The dependency (bucket layout, add, iteration) is a stand-in with an opaque state; what is proved is what metrique's own code
does with it: record_many makes exactly one `add` with the scaled, saturated value and the given count; drain swaps in a fresh
histogram and reports exactly one Repeated{scale_down(midpoint) x count, count} per non-empty bucket, in bucket order.
Floats are opaque deterministic functions (see unit hist)."""
import re
from units import hist as _h

NAME = "hist_exp"
PROPERTIES = ["C11"]
H = _h.H


def _stmt(name, old, new, doc):
    def f(text):
        n = text.count(old)
        return text.replace(old, new), n
    f.__name__ = name
    f.__doc__ = doc
    return f


e1 = _stmt("e1_saturating_cast", "value.min(u64::MAX as f64) as u64", "verif_f64_to_u64(value.min(verif_as_f64(u64::MAX)))",
           "E1: `as u64` of a float and `u64::MAX as f64` are opaque functions (this Verus treats the casts as arbitrary values)")
def rf_as_f64(text):
    """RF: `X as f64` with X an identifier or a nullary method call on an identifier -> verif_as_f64(X) (opaque function; this Verus
    treats the cast as an arbitrary value)"""
    pat = r"\b([a-z_][a-z_0-9]*(?:\.[a-z_][a-z_0-9]*\(\))?) as f64\b"
    n = len(re.findall(pat, text))
    return re.sub(pat, r"verif_as_f64(\1)", text), n


e4 = _stmt("e4_const", "SCALING_FACTOR", "verif_scaling_factor()", "E4: the constant (1 << 10) as f64 is an opaque float")

PRELUDE = r'''
use vstd::std_specs::ops::{MulSpec, DivSpec};
pub mod float_axioms {
    use vstd::prelude::*;
    use vstd::std_specs::ops::{MulSpec, DivSpec};
    // float multiplication / division never panic ...
    pub broadcast axiom fn f64_mul_req(a: f64, b: f64) ensures #[trigger] a.mul_req(b);
    pub broadcast axiom fn f64_div_req(a: f64, b: f64) ensures #[trigger] a.div_req(b);
    // ... and are deterministic functions of their operands (results stay opaque)
    pub broadcast axiom fn f64_mul_obeys(a: f64, b: f64) ensures <f64 as MulSpec<f64>>::obeys_mul_spec() || #[trigger] a.mul_spec(b) != a.mul_spec(b);
    pub broadcast axiom fn f64_div_obeys(a: f64, b: f64) ensures <f64 as DivSpec<f64>>::obeys_div_spec() || #[trigger] a.div_spec(b) != a.div_spec(b);
}
broadcast use {float_axioms::f64_mul_req, float_axioms::f64_div_req, float_axioms::f64_mul_obeys, float_axioms::f64_div_obeys, filter_axioms::lemma_filter_ext};
pub uninterp spec fn u64_as_f64(x: u64) -> f64;
#[verifier::external_body]
pub fn verif_as_f64(x: u64) -> (r: f64) ensures r == u64_as_f64(x) { unimplemented!() }
pub uninterp spec fn f64_to_u64(x: f64) -> u64;
#[verifier::external_body]
pub fn verif_f64_to_u64(x: f64) -> (r: u64) ensures r == f64_to_u64(x) { unimplemented!() }
pub uninterp spec fn f64_min(a: f64, b: f64) -> f64;
pub assume_specification[ f64::min ](a: f64, b: f64) -> (r: f64) ensures r == f64_min(a, b);
pub uninterp spec fn scaling_factor() -> f64;
#[verifier::external_body]
pub fn verif_scaling_factor() -> (r: f64) ensures r == scaling_factor() { unimplemented!() }
pub assume_specification[ u64::midpoint ](a: u64, b: u64) -> (r: u64) ensures r == (a as nat + b as nat) / 2;
pub assume_specification<T>[ std::mem::replace ](dest: &mut T, src: T) -> (r: T) ensures r == *old(dest), *final(dest) == src;
pub trait Into<T>: Sized {
    spec fn into_spec(self) -> T;
    fn into(self) -> (r: T) ensures r == self.into_spec();
}
impl Into<f64> for f64 {
    open spec fn into_spec(self) -> f64 { self }
    fn into(self) -> (r: f64) { self }
}
pub trait AggregationStrategy {
    fn record_many(&mut self, value: f64, count: u64);
    fn drain(&mut self) -> Vec<Observation>;
}
pub trait SharedAggregationStrategy {
    fn record_many(&self, value: f64, count: u64);
    fn drain(&self) -> Vec<Observation>;
}

// ---- the `histogram` dependency: opaque state, bucket list (assumed) ---------------------------------------------------
pub struct BucketAbs { pub count: u64, pub start: u64, pub end: u64 }
pub mod histogram {
    use vstd::prelude::*;
    use super::BucketAbs;
    #[verifier::external_body] pub struct Config { _p: u8 }
    #[verifier::external_body] pub struct Error { _p: u8 }
    #[verifier::external_body] pub struct Histogram { _p: u8 }
    #[verifier::external_body] #[derive(Clone, Copy)] pub struct Bucket { _p: u8 }
    #[verifier::external_body] pub struct VerifRange { _p: u8 }
    pub uninterp spec fn hist_add(b: Seq<Bucket>, value: u64, count: u64) -> Seq<Bucket>;
    impl Histogram {
        // all buckets of the layout, in order, with their current counts
        pub uninterp spec fn buckets(&self) -> Seq<Bucket>;
        #[verifier::external_body]
        pub fn with_config(config: &Config) -> (r: Histogram)
            ensures forall|i: int| 0 <= i < r.buckets().len() ==> (#[trigger] r.buckets()[i]).abs().count == 0
        { unimplemented!() }
        // add(value, count): bucket arithmetic of the dependency (opaque); on error nothing changes
        #[verifier::external_body]
        pub fn add(&mut self, value: u64, count: u64) -> (r: Result<(), Error>)
            ensures r is Ok ==> final(self).buckets() == hist_add(old(self).buckets(), value, count),
                    r is Err ==> final(self).buckets() == old(self).buckets(),
        { unimplemented!() }
        #[verifier::external_body]
        pub fn iter(&self) -> (r: BucketIter) ensures r.elems() == self.buckets() { unimplemented!() }
    }
    // the atomic variant: `add` and `drain` work through a shared reference (assumed linearizable); what a call does is an
    // effect witness (`added`) / an opaque snapshot of the current counts (`snapshot`)
    #[verifier::external_body] pub struct AtomicHistogram { _p: u8 }
    pub uninterp spec fn added(h: &AtomicHistogram, value: u64, count: u64) -> bool;
    pub uninterp spec fn refused(h: &AtomicHistogram, value: u64, count: u64) -> bool;
    impl AtomicHistogram {
        pub uninterp spec fn snapshot(&self) -> Seq<Bucket>;
        #[verifier::external_body]
        pub fn add(&self, value: u64, count: u64) -> (r: Result<(), Error>)
            ensures r is Ok ==> added(self, value, count), r is Err ==> refused(self, value, count),
        { unimplemented!() }
        #[verifier::external_body]
        pub fn drain(&self) -> (r: Histogram) ensures r.buckets() == self.snapshot() { unimplemented!() }
    }
    impl Bucket {
        pub uninterp spec fn abs(&self) -> BucketAbs;
        #[verifier::external_body] pub fn count(&self) -> (r: u64) ensures r == self.abs().count { unimplemented!() }
        #[verifier::external_body] pub fn range(&self) -> (r: VerifRange) ensures r.lo() == self.abs().start, r.hi() == self.abs().end { unimplemented!() }
    }
    impl VerifRange {
        pub uninterp spec fn lo(&self) -> u64;
        pub uninterp spec fn hi(&self) -> u64;
        #[verifier::external_body] pub fn start(&self) -> (r: &u64) ensures *r == self.lo() { unimplemented!() }
        #[verifier::external_body] pub fn end(&self) -> (r: &u64) ensures *r == self.hi() { unimplemented!() }
    }
    // Iterator adapters over buckets, restated over the sequence of elements, with the closures' contracts
    #[verifier::external_body] pub struct BucketIter { _p: u8 }
    #[verifier::external_body] pub struct ObsIter { _p: u8 }
    impl BucketIter {
        pub uninterp spec fn elems(&self) -> Seq<Bucket>;
        #[verifier::external_body]
        pub fn filter<F: Fn(&Bucket) -> bool>(self, f: F) -> (r: BucketIter)
            requires forall|b: Bucket| #[trigger] f.requires((&b,)),
            // the kept elements are those on which f answered true (f's answer on b is some value allowed by its contract)
            ensures exists|kept: spec_fn(Bucket) -> bool| (forall|b: Bucket| f.ensures((&b,), #[trigger] kept(b))) && r.elems() == self.elems().filter(kept),
        { unimplemented!() }
        #[verifier::external_body]
        pub fn map<G: Fn(Bucket) -> super::Observation>(self, g: G) -> (r: ObsIter)
            requires forall|b: Bucket| #[trigger] g.requires((b,)),
            ensures r.elems().len() == self.elems().len(),
                    forall|i: int| 0 <= i < self.elems().len() ==> g.ensures((self.elems()[i],), #[trigger] r.elems()[i]),
        { unimplemented!() }
    }
    impl ObsIter {
        pub uninterp spec fn elems(&self) -> Seq<super::Observation>;
        #[verifier::external_body]
        pub fn collect(self) -> (r: Vec<super::Observation>) ensures r@ == self.elems() { unimplemented!() }
    }
}
use histogram::Config;
#[verifier::external_body]
pub fn default_histogram_config() -> Config { unimplemented!() }

// C11 (exponential drain), from the property statement: a non-empty bucket is reported as `count` occurrences at the
// bucket midpoint scaled back down: Repeated { total: scale_down(midpoint) x count, occurrences: count }
pub open spec fn scale_down_spec(v: f64) -> f64 { v.div_spec(scaling_factor()) }
pub open spec fn scale_up_spec(v: f64) -> f64 { v.mul_spec(scaling_factor()) }
pub open spec fn out_bucket(a: BucketAbs) -> Observation {
    Observation::Repeated {
        total: scale_down_spec(u64_as_f64(((a.start as nat + a.end as nat) / 2) as u64)).mul_spec(u64_as_f64(a.count)),
        occurrences: a.count,
    }
}
// filtering by two predicates that agree everywhere gives the same sequence (proved by induction; used automatically)
pub mod filter_axioms {
    use vstd::prelude::*;
    use super::histogram::Bucket;
    pub proof fn lemma_filter_ext_ind(s: Seq<Bucket>, p: spec_fn(Bucket) -> bool, q: spec_fn(Bucket) -> bool)
        requires forall|b: Bucket| #[trigger] p(b) == q(b),
        ensures s.filter(p) == s.filter(q),
        decreases s.len()
    {
        reveal(Seq::filter);
        if s.len() > 0 { lemma_filter_ext_ind(s.drop_last(), p, q); }
    }
    pub broadcast proof fn lemma_filter_ext(s: Seq<Bucket>, p: spec_fn(Bucket) -> bool, q: spec_fn(Bucket) -> bool)
        requires forall|b: Bucket| #[trigger] p(b) == q(b),
        ensures #[trigger] s.filter(p) == #[trigger] s.filter(q),
    { lemma_filter_ext_ind(s, p, q); }
}
pub open spec fn nonempty(s: Seq<histogram::Bucket>) -> Seq<histogram::Bucket> { s.filter(|b: histogram::Bucket| b.abs().count > 0) }
'''

ITEMS = [
    dict(kind="struct", file="metrique-writer-core/src/value/mod.rs", name="Observation"),
    dict(kind="fn", file=H, impl=None, name="scale_up", ret="r", impl_trait_args=True, rules={"R14": 1, "e4_const": 1}, extra_rewrites=[e4],
         ensures="r == scale_up_spec(v.into_spec()),"),
    dict(kind="fn", file=H, impl=None, name="scale_down", ret="r", impl_trait_args=True, rules={"R14": 1, "e4_const": 1}, extra_rewrites=[e4],
         ensures="r == scale_down_spec(v.into_spec()),"),
    dict(kind="struct", file=H, name="ExponentialAggregationStrategy"),
    dict(kind="fn", file=H, impl=r"^impl AggregationStrategy for ExponentialAggregationStrategy$", name="record_many", label="ExponentialAggregationStrategy::record_many",
         rules={"e1_saturating_cast": 1}, extra_rewrites=[e1],
         ensures="""
            // C11: exactly one add - of the value scaled up and saturated into u64, with the count unchanged; an error of the
            // dependency (value out of range: impossible in the 64-bit layout) is ignored, and then nothing was recorded
            final(self).inner.buckets() == histogram::hist_add(old(self).inner.buckets(), f64_to_u64(f64_min(scale_up_spec(value), u64_as_f64(u64::MAX))), count)
                || final(self).inner.buckets() == old(self).inner.buckets(),                                 // OBL record_many_is_one_add_of_scaled_value
         """),
    dict(kind="fn", file=H, impl=r"^impl AggregationStrategy for ExponentialAggregationStrategy$", name="drain", label="ExponentialAggregationStrategy::drain", ret="r",
         rules={"rf_as_f64": 2}, extra_rewrites=[rf_as_f64], unpinned=["rf_as_f64"],
         closures={
             1: dict(params="bucket: &histogram::Bucket", ret="(keep: bool)", ensures="keep == (bucket.abs().count > 0),"),
             2: dict(params="bucket: histogram::Bucket", ret="(o: Observation)", ensures="o == out_bucket(bucket.abs()),"),
         },
         ensures="""
            // C11: one Repeated per non-empty bucket, in bucket order, with that bucket's count - so the occurrences add up to what was
            // recorded - at the scaled-down midpoint; and the strategy starts over with an empty histogram
            r@ =~= nonempty(old(self).inner.buckets()).map_values(|b: histogram::Bucket| out_bucket(b.abs())),                 // OBL drain_reports_every_nonempty_bucket_once
            forall|i: int| 0 <= i < final(self).inner.buckets().len() ==> (#[trigger] final(self).inner.buckets()[i]).abs().count == 0,   // OBL drain_resets
         """),
    # ---- atomic variant: same glue through a shared reference
    dict(kind="struct", file=H, name="AtomicExponentialAggregationStrategy"),
    dict(kind="fn", file=H, impl=r"^impl SharedAggregationStrategy for AtomicExponentialAggregationStrategy$", name="record_many", label="AtomicExponentialAggregationStrategy::record_many",
         rules={"e1_saturating_cast": 1}, extra_rewrites=[e1],
         ensures="""
            // identically to the non-atomic variant: one add of the scaled, saturated value with the count unchanged (or, if the
            // dependency refuses the value, nothing)
            histogram::added(&self.inner, f64_to_u64(f64_min(scale_up_spec(value), u64_as_f64(u64::MAX))), count)
                || histogram::refused(&self.inner, f64_to_u64(f64_min(scale_up_spec(value), u64_as_f64(u64::MAX))), count),     // OBL atomic_record_many_is_one_add_of_scaled_value
         """),
    dict(kind="fn", file=H, impl=r"^impl SharedAggregationStrategy for AtomicExponentialAggregationStrategy$", name="drain", label="AtomicExponentialAggregationStrategy::drain", ret="r",
         rules={"rf_as_f64": 2}, extra_rewrites=[rf_as_f64], unpinned=["rf_as_f64"],
         closures={
             1: dict(params="bucket: &histogram::Bucket", ret="(keep: bool)", ensures="keep == (bucket.abs().count > 0),"),
             2: dict(params="bucket: histogram::Bucket", ret="(o: Observation)", ensures="o == out_bucket(bucket.abs()),"),
         },
         ensures="""
            // identically to the non-atomic variant, on the snapshot the dependency's atomic drain returns
            r@ =~= nonempty(self.inner.snapshot()).map_values(|b: histogram::Bucket| out_bucket(b.abs())),       // OBL atomic_drain_reports_every_nonempty_bucket_once
         """),
]

POSTLUDE = r'''
// count conservation of drain: the reported occurrences are the non-zero bucket counts
pub open spec fn occ(o: Observation) -> nat { match o { Observation::Repeated { total, occurrences } => occurrences as nat, _ => 1 } }
pub proof fn lemma_drain_occurrences(b: Seq<histogram::Bucket>, i: int)
    requires 0 <= i < nonempty(b).len(),
    ensures occ(nonempty(b).map_values(|x: histogram::Bucket| out_bucket(x.abs()))[i]) == nonempty(b)[i].abs().count, nonempty(b)[i].abs().count > 0,
{
    b.lemma_filter_pred(|x: histogram::Bucket| x.abs().count > 0, i);
}
'''
CANARY = dict(fn="ExponentialAggregationStrategy::drain", replace=("r@ =~= nonempty(old(self).inner.buckets())", "r@ =~= old(self).inner.buckets()"))
