"""Unit `wrappers2` (C15): the entry wrappers that add something to every value - ForceFlag<E>, WithDimensions<E, N>
(metrique-writer-core/src/value/{force,dimensions}.rs) and WithGlobalDimensions<E, N> (metrique-writer/src/entry/dimensions.rs) -
preserve the wrapped entry's sample group.

`sample_group` is extracted from the wrapper's Entry impl; if the impl does not define it, the trait's DEFAULT body is
instantiated (R25: language semantics - copied from `pub trait Entry` in metrique-writer-core/src/entry/mod.rs) and must meet the
same contract.  What the wrappers do to the values (merged flags, appended dimensions) is stated as an opaque transformation
of the inner entry's items; their `write` bodies are not verified here."""
from units import wrappers as _w

NAME = "wrappers2"
PROPERTIES = ["C15"]
FORCE = "metrique-writer-core/src/value/force.rs"
DIMS = "metrique-writer-core/src/value/dimensions.rs"
GDIMS = "metrique-writer/src/entry/dimensions.rs"
ENTRY = "metrique-writer-core/src/entry/mod.rs"

PRELUDE = _w.PRELUDE + r'''
use std::marker::PhantomData;
pub trait FlagConstructor {}
// stand-ins for the payload types of the wrapper structs
#[verifier::external_body] #[verifier::reject_recursive_types(A)] pub struct SmallVec<A> { _p: PhantomData<A> }
#[verifier::external_body] #[verifier::reject_recursive_types(A)] pub struct HashSet<A> { _p: PhantomData<A> }
#[verifier::external_body] pub struct CowStr { _p: u8 }
// what a wrapper does to the inner entry's items (flags merged / dimensions appended): opaque here
pub uninterp spec fn decorated<W>(w: W, inner: Seq<Item>) -> Seq<Item>;
'''


def _items(inner):
    return ("    open spec fn items(&self) -> Seq<Item> { decorated(*self, self.%s.items()) }\n"
            "    // C15: sample groups are preserved\n"
            "    open spec fn groups(&self) -> Seq<int> { self.%s.groups() }\n"
            "    // write (flags merged / dimensions appended onto every value) is not verified in this unit\n"
            "    #[verifier::external_body]\n"
            "    fn write<'a, VerifI0: EntryWriter<'a>>(&'a self, writer: &mut VerifI0) { unimplemented!() }\n") % (inner, inner)


def _sg(file, impl, label, inner):
    return dict(kind="fn", file=file, impl=impl, name="sample_group", ret_iter="VerifIter", label=label,
                default_from=(ENTRY, r"^trait Entry$"), rules={"R23": 1}, extra_rewrites=[_w.r24_empty_iter], unpinned=["r24_empty_iter"],
                impl_extra=_items(inner))


ITEMS = [
    dict(kind="struct", file=FORCE, name="ForceFlag", attrs=["#[verifier::reject_recursive_types(T)]", "#[verifier::reject_recursive_types(FLAGS)]"]),
    _sg(FORCE, r"^impl < E : Entry , FLAGS : FlagConstructor > Entry for ForceFlag < E , FLAGS >$", "<ForceFlag as Entry>::sample_group", "0"),
    dict(kind="struct", file=DIMS, name="WithDimensions", attrs=["#[verifier::reject_recursive_types(V)]", "#[verifier::reject_recursive_types(N)]"]),
    _sg(DIMS, r"^impl < E : Entry , const N : usize > Entry for WithDimensions < E , N >$", "<WithDimensions as Entry>::sample_group", "value"),
    dict(kind="struct", file=GDIMS, name="WithGlobalDimensions", attrs=["#[verifier::reject_recursive_types(E)]", "#[verifier::reject_recursive_types(N)]"]),
    _sg(GDIMS, r"^impl < E : Entry , const N : usize > Entry for WithGlobalDimensions < E , N >$", "<WithGlobalDimensions as Entry>::sample_group", "entry"),
]
POSTLUDE = ""
CANARY = None
