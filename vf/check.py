"""Property check driver.

usage: check <PROPERTY> [--tier quick|thorough] [--repo DIR] [--keep]

exit 0: every obligation of the property's units was generated from the current /repo source and
        discharged; vacuity guards passed; assumption scan matches the committed list.
exit 1: `VIOLATION property=<id> replay=<path>` - a committed obligation was refuted / failed with
        a semantic verifier message (after a retry with another seed and a larger budget).
exit 2: UNDECIDED (lost anchor, unsupported construct, type error, timeout, OOM, ICE, ...).
"""
import importlib
import json
import os
import shutil
import sys
import tempfile
import time
import traceback

from . import verus as V
from .extract import Undecided

ROOT = os.path.dirname(os.path.dirname(os.path.abspath(__file__)))


def load_known_findings():
    path = os.path.join(ROOT, "known_findings.txt")
    out = {"open": [], "fixed": []}
    if os.path.exists(path):
        for l in open(path):
            l = l.strip()
            if not l or l.startswith("#"):
                continue
            kind, _, rest = l.partition(":")
            if kind in out:
                out[kind].append(rest.strip())
    return out


def _fn_ranges(bu):
    """generated line -> item name, for lines that belong to a function under contract (spec or repo)."""
    lm = bu.line_map()
    out = {}
    for ln, o in lm.items():
        if o["kind"] == "repo":
            out[ln] = o["item"]
        elif o["kind"] == "spec" and "::" in o["label"]:
            out[ln] = o["label"].rsplit("::", 1)[0]
    return out, lm


def run_verus_unit(repo, unit_name, variant, workdir, log, only_fns=None):
    """Returns dict(status, obligations, discharged, failures[], functions[], ...)."""
    unit = importlib.import_module("units." + unit_name)
    vname = unit_name + ("" if not variant else "[" + ",".join("%s=%s" % kv for kv in sorted(variant.items())) + "]")
    res = {"unit": vname, "engine": "verus", "status": "pass", "failures": [], "undecided": [], "backend": "z3 (via Verus)", "repo": repo}
    import re as _re0
    import types as _types
    helpers = []
    for _round in range(8):
        try:
            u2 = unit
            if helpers:
                # a private helper called by a function under contract but not listed in the unit (typically split out by a
                # refactoring) is INLINED at its call sites (R21), so the caller is verified against the same text as before the split
                u2 = _types.SimpleNamespace(**{k: getattr(unit, k) for k in dir(unit) if not k.startswith("__")})
                items = [dict(it) for it in unit.ITEMS]
                for h in helpers:
                    for k, it in enumerate(items):
                        if it.get("kind") == "fn" and (it.get("label") or it.get("name")) == h["after"]:
                            if h.get("const"):
                                srcf = open(os.path.join(repo, it["file"])).read()
                                mm = _re0.search(r"^[ \t]*(?:pub(?:\([a-z]+\))? )?const %s\s*:\s*([^=;]+)=\s*([^;]+);" % h["name"], srcf, _re0.M)
                                if not mm:
                                    raise Undecided("R29: const %s not found in %s" % (h["name"], it["file"]))
                                items.insert(k, dict(kind="raw", label="R29 const " + h["name"],
                                                     text="pub const %s: %s = %s;\n" % (h["name"], mm.group(1).strip(), mm.group(2).strip())))
                            else:
                                it["inline_helpers"] = list(it.get("inline_helpers", [])) + [(h["name"], h.get("recv"))]
                            break
                u2.ITEMS = items
            bu = V.build_unit(repo, u2, variant)
        except Undecided as e:
            res["status"] = "undecided"
            res["undecided"].append("extraction: %s" % e)
            return res
        if _round == 7:
            break
        # quick type-check pass to discover missing helper methods
        probe = V.run_verus(bu, os.path.join(workdir, "probe_" + unit_name), rlimit=1, extra_args=["--no-verify"], timeout=120)
        missing = None
        for d in probe["diags"]:
            m = _re0.match(r"no (?:method|function or associated item|associated function or constant|associated item) named `(\w+)` found for (?:struct|mutable reference|reference|enum) `([^`]*)`", d["msg"])
            if d["level"] == "error" and m and d["line"]:
                fnmap0, _lm0 = _fn_ranges(bu)
                owner = fnmap0.get(d["line"])
                if owner and not any(h["name"] == m.group(1) and h["after"] == owner for h in helpers):
                    # the receiver's type name (`&mut Foo<'_, T>` -> Foo) narrows the search when several types have such a method
                    mt = _re0.search(r"([A-Za-z_][A-Za-z0-9_]*)\s*(?:<.*)?$", m.group(2).replace("&mut ", "").replace("&", "").strip())
                    missing = {"name": m.group(1), "after": owner, "recv": mt.group(1) if mt else None}
                    break
        if not missing:
            # a free helper function (not a method) that the unit does not declare: inlined the same way
            for d in probe["diags"]:
                m = _re0.match(r"cannot find function `(\w+)` in this scope", d["msg"])
                if d["level"] == "error" and m and d["line"]:
                    fnmap0, _lm0 = _fn_ranges(bu)
                    owner = fnmap0.get(d["line"])
                    if owner and not any(h["name"] == m.group(1) and h["after"] == owner for h in helpers):
                        missing = {"name": m.group(1), "after": owner}
                        break
        if not missing:
            # R29: a module-level constant the function refers to but the unit does not declare is copied from the same file
            for d in probe["diags"]:
                m = _re0.match(r"cannot find value `([A-Z][A-Z0-9_]*)` in this scope", d["msg"])
                if d["level"] == "error" and m and d["line"] and not any(h["name"] == m.group(1) for h in helpers):
                    fnmap0, _lm0 = _fn_ranges(bu)
                    owner = fnmap0.get(d["line"])
                    if owner:
                        missing = {"name": m.group(1), "after": owner, "const": True}
                        break
        if not missing:
            break
        helpers.append(missing)
        log("  %s: inlining helper `%s` at its call sites in %s (R21: not listed in the unit)" % (vname, missing["name"], missing["after"]))
    res["auto_helpers"] = helpers
    res["_unit"] = u2
    text = bu.text()
    # assumption scan against the committed list
    scan = V.scan_assumptions(text)
    res["assumption_scan"] = scan
    expected_scan = getattr(unit, "ASSUMPTION_SCAN", None)
    if expected_scan is not None and scan != expected_scan:
        res["status"] = "undecided"
        res["undecided"].append("assumption scan differs from committed list: found %r expected %r" % (scan, expected_scan))
        return res
    attempts = [dict(rlimit=30, extra=[]), dict(rlimit=120, extra=["--smt-option", "smt.random_seed=7"])]
    r = None
    for k, att in enumerate(attempts):
        r = V.run_verus(bu, os.path.join(workdir, vname.replace("[", "_").replace("]", "").replace(",", "_").replace("=", "")),
                        rlimit=att["rlimit"], extra_args=att["extra"])
        if r["rc"] == 0:
            break
        sem = [d for d in r["diags"] if d["level"] == "error" and V.is_semantic(d["msg"])]
        if not sem:
            break  # not a proof failure: no point retrying
        log("  %s: attempt %d failed with %d semantic error(s); %s" % (vname, k + 1, len(sem), "retrying" if k + 1 < len(attempts) else "giving up"))
    if r is not None and r["rc"] != 0 and not (variant or {}).get("loop_context") \
            and any(d["level"] == "error" and V.is_semantic(d["msg"]) for d in r["diags"]) \
            and not any(d["level"] == "error" and not V.is_semantic(d["msg"]) and not d["msg"].startswith("aborting due to") for d in r["diags"]):
        # last attempt: the same unit with every loop seeing the facts established before it (`loop_isolation(false)`).  Verus' default
        # isolates a loop from its context, so a local merely introduced before a loop can make a correct body fail; the non-isolated
        # encoding in turn gives the solver more to chew on.  Both encodings are sound: the obligations hold if EITHER run discharges them.
        try:
            bu_lc = V.build_unit(repo, u2, dict(variant or {}, loop_context=True))
            if bu_lc.text() != bu.text():
                r_lc = V.run_verus(bu_lc, os.path.join(workdir, vname.replace("[", "_").replace("]", "").replace(",", "_").replace("=", "") + "_lc"), rlimit=60)
                log("  %s: retry with loops in context -> rc %s" % (vname, r_lc["rc"]))
                if r_lc["rc"] == 0:
                    r, bu, text = r_lc, bu_lc, bu_lc.text()
                    res["loops_in_context"] = True
        except Undecided:
            pass
    res["cmd"] = r["cmd"]
    res["wall_s"] = r["wall_s"]
    synt, problems = syntactic_checks(repo, unit)
    res["syntactic_checks"] = synt
    if getattr(bu, "generated_fresh", None):
        res["generated"] = bu.generated_fresh
    fr = V.function_results(r)
    crate = bu.name
    res["solver_s"] = sum(v["time_us"] for v in fr.values()) / 1e6
    fnmap, lm = _fn_ranges(bu)
    # functions under contract
    res["functions"] = []
    for it in bu.items:
        if hasattr(it, "body_src"):
            res["functions"].append({"fn": it.qualname(), "repo": "%s:%d-%d" % (it.rel, it.first_line, it.last_line),
                                     "rewrites": it.rule_hits})
        else:
            res["functions"].append({"struct": it.name, "repo": "%s:%d-%d" % (it.rel, it.first_line, it.last_line),
                                     "rewrites": it.rule_hits})
    # obligations from the AIR log: labelled asserts per function definition query
    # name verus functions by the item they were generated from (source line of the definition), so that
    # trait impls (`impl&%3::write`, `alloc::boxed::Box::write`) are attributed to the extracted item's label
    renamed = {}
    for k in r["air_obligations"]:
        ln = r.get("air_locs", {}).get(k)
        it_name = fnmap.get(ln) if ln else None
        base = k.split("@")[0]
        renamed[k] = it_name if it_name and lm.get(ln, {}).get("kind") == "repo" else base.split("::", 1)[-1]
    obl = {}
    for k, v in r["air_obligations"].items():
        obl[renamed[k]] = obl.get(renamed[k], 0) + v
    labs = {}
    for k, v in r["air_labels"].items():
        labs.setdefault(renamed.get(k, k), {}).update(v)
    r["air_labels"] = labs
    obl_all = dict(obl)
    res["obligations_by_fn"] = obl
    res["obligation_labels"] = r["air_labels"]
    all_fn_names = set(it.qualname() for it in bu.items if hasattr(it, "body_src"))
    if only_fns is not None:
        # count only the obligations of the listed functions and of items that are not extracted functions (lemmas)
        obl = {k: v for k, v in obl.items() if k in only_fns or k not in all_fn_names}
        res["obligations_by_fn"] = obl
        res["functions"] = [f for f in res["functions"] if f.get("struct") or f.get("fn") in only_fns]
    total = sum(obl.values())
    failed_fns = [k for k, v in fr.items() if not v["success"]]
    res["obligations"] = total
    vr = r["json"].get("verification-results", {})
    errors = [d for d in r["diags"] if d["level"] == "error" and not d["msg"].startswith("aborting due to")]
    if r["rc"] == 0 and vr.get("success"):
        # every expected function must have been verified this run
        expected = getattr(unit, "EXPECT_VERIFIED", None)
        if expected is None:
            expected = [it.qualname() for it in bu.items if hasattr(it, "body_src")]
        missing = [e for e in expected if e not in obl_all]
        if problems:
            res["status"] = "undecided"
            res["undecided"].extend(problems)
        if missing:
            res["status"] = "undecided"
            res["undecided"].append("functions not verified by this run (no SMT query): %s" % missing)
        res["discharged"] = total
        res["verified_items"] = vr.get("verified")
        return res
    # failure: classify
    nonsem = [d for d in errors if not V.is_semantic(d["msg"])]
    if r["rc"] == -9 or not vr or vr.get("encountered-vir-error") or nonsem or not errors:
        res["status"] = "undecided"
        for d in nonsem[:5]:
            res["undecided"].append("verus: %s (generated line %s -> %s)" % (d["msg"], d["line"], lm.get(d["line"])))
        if r["rc"] == -9:
            res["undecided"].append("verus timeout")
        if not errors and not nonsem:
            res["undecided"].append("verus failed without diagnostics: rc=%s %s" % (r["rc"], r["stderr"][-2000:]))
        res["stderr_tail"] = r["stderr"][-4000:]
        return res
    res["status"] = "violation"
    failed_count = 0
    for d in errors:
        # name the obligation: function + kind + the spec/source line the verifier points to
        fn = fnmap.get(d["line"])
        where = lm.get(d["line"])
        for ln, lab in d["labels"]:
            if fn is None and ln in fnmap:
                fn = fnmap[ln]
        clause = None
        src = text.split("\n")
        if d["line"] and d["line"] - 1 < len(src):
            clause = src[d["line"] - 1].strip()
        import re as _re
        # the clause the verifier points to: for postconditions the labelled "failed this postcondition" line
        cl_line = d["line"]
        for ln, lab in d["labels"]:
            if "failed this postcondition" in lab or "failed precondition" in lab:
                cl_line = ln
        ctext = src[cl_line - 1].strip() if cl_line and cl_line - 1 < len(src) else (clause or "")
        m_obl = _re.search(r"OBL ([A-Za-z0-9_\-]+)", ctext)
        slug = m_obl.group(1) if m_obl else _re.sub(r"[^A-Za-z0-9]+", "_", ctext)[:60].strip("_")
        oname = "%s::%s::%s::%s" % (vname, fn or "?", d["msg"], slug)
        k = 2
        while any(f["obligation"] == oname for f in res["failures"]):
            oname = "%s::%s::%s::%s#%d" % (vname, fn or "?", d["msg"], slug, k)
            k += 1
        res["failures"].append({
            "obligation": oname,
            "function": fn, "kind": d["msg"], "clause": clause, "generated_line": d["line"],
            "origin": where,
            "related": [{"line": ln, "label": lab, "origin": lm.get(ln)} for ln, lab in d["labels"]],
            "verifier_output": d["raw"],
        })
        failed_count += 1
    # failures inside a function that contains a construct Verus models imprecisely are not refutations
    imprecise = {it.qualname(): it.imprecise for it in bu.items if getattr(it, "imprecise", None)}
    _spans = []
    if any(any(r.endswith("without a spliced contract") for r in rs) for rs in imprecise.values()):
        # line ranges of closure bodies in the generated text: a PRECONDITION that fails at a call inside a closure body does not
        # depend on the closure's missing contract (Verus verifies a closure body in the context of the enclosing function)
        from .extract import _toks as _tk
        try:
            tk, mt = _tk(text)
            for i, t in enumerate(tk):
                if t.text in ("|", "||") and i > 0 and tk[i - 1].text in ("(", ","):
                    pend = i
                    if t.text == "|":
                        pend = i + 1
                        while pend < len(tk) and tk[pend].text != "|":
                            pend += 1
                    b0 = pend + 1
                    if b0 < len(tk) and tk[b0].text == "{":
                        b1 = mt[b0]
                    else:
                        k = b0
                        while k < len(tk):
                            if tk[k].text in ("(", "[", "{"):
                                k = mt[k] + 1
                                continue
                            if tk[k].text in (")", ","):
                                break
                            k += 1
                        b1 = k - 1
                    if b0 < len(tk) and b1 < len(tk):
                        _spans.append((text.count("\n", 0, tk[b0].start) + 1, text.count("\n", 0, tk[b1].end) + 1))
        except Exception:
            _spans = []
    def _is_screened(f):
        if f["function"] not in imprecise:
            return False
        if all(r.endswith("without a spliced contract") for r in imprecise[f["function"]]) and f["kind"].startswith("precondition not satisfied") \
                and f.get("generated_line") and any(a <= f["generated_line"] <= b for a, b in _spans):
            return False
        # an integer overflow / division by zero does not depend on the value an unmodelled float cast yields: it stays a refutation
        if all(r.startswith("float cast") for r in imprecise[f["function"]]) and \
                ("arithmetic underflow/overflow" in f["obligation"] or "division by zero" in f["obligation"]):
            return False
        return True
    screened = [f for f in res["failures"] if _is_screened(f)]
    if screened:
        res["failures"] = [f for f in res["failures"] if not _is_screened(f)]
        for f in screened:
            res["undecided"].append("proof of %s failed, but the function contains %s, which this Verus models imprecisely: undecided" % (f["obligation"], "; ".join(imprecise[f["function"]])))
        if not res["failures"]:
            res["status"] = "undecided"
    if only_fns is not None:
        # this property is carried only by the listed functions (and the lemmas/spec fns of the unit):
        # failures in the unit's other functions belong to other properties and are not reported here
        mine = [f for f in res["failures"] if f["function"] in only_fns or f["function"] is None or f["function"] not in all_fn_names]
        other = [f for f in res["failures"] if f not in mine]
        res["failures_in_other_properties"] = [f["obligation"] for f in other]
        res["failures"] = mine
        failed_count = len(mine)
        if not mine:
            mine_screened = [f for f in screened if f["function"] in only_fns or f["function"] is None or f["function"] not in all_fn_names]
            res["status"] = "undecided" if mine_screened else "pass"
    res["discharged"] = max(0, total - failed_count)
    res["generated_file"] = r["src"]
    return res


def syntactic_checks(repo, unit):
    """Token-level facts about functions that are NOT verified (listed as assumptions). A failed or
    unlocatable syntactic check makes the unit undecided, never a violation."""
    from .rusttok import Source, tokenize
    out, problems = [], []
    for sc in getattr(unit, "SYNTACTIC", []):
        try:
            src = Source(os.path.join(repo, sc["file"]))
            cands = []
            if sc.get("impl"):
                for b in src.find_blocks("impl", sc["impl"]):
                    cands += src.find_fn(sc["fn"], b[1] + 1, b[2])
            else:
                cands = src.find_fn(sc["fn"])
            if len(cands) != 1:
                problems.append("syntactic check: fn %s found %d times" % (sc["fn"], len(cands)))
                continue
            s0, fi, o, c = cands[0]
            body = [t.text for t in src.toks[o:c + 1]]
            pos = 0
            ok = True
            for pat in sc.get("ordered", []):
                pt = [t.text for t in tokenize(pat)]
                found = None
                for i in range(pos, len(body) - len(pt) + 1):
                    if body[i:i + len(pt)] == pt:
                        found = i
                        break
                if found is None:
                    ok = False
                    problems.append("syntactic check failed in %s::%s: %r not found in order (%s)" % (sc["file"], sc["fn"], pat, sc["why"]))
                    break
                pos = found + len(pt)
            for pat in sc.get("absent", []):
                pt = [t.text for t in tokenize(pat)]
                if any(body[i:i + len(pt)] == pt for i in range(len(body) - len(pt) + 1)):
                    ok = False
                    problems.append("syntactic check failed in %s::%s: %r present (%s)" % (sc["file"], sc["fn"], pat, sc["why"]))
            out.append({"fn": sc["fn"], "file": sc["file"], "why": sc["why"], "ok": ok})
        except Exception as e:
            problems.append("syntactic check error: %r" % (e,))
    return out, problems


def canary_check(repo, unit_name, variant, workdir, unit=None):
    """The unit re-verified with one postcondition negated must fail."""
    unit = unit or importlib.import_module("units." + unit_name)
    can = getattr(unit, "CANARY", None)
    if not can:
        return {"unit": unit_name, "canary": "none"}
    v = dict(variant or {})
    v["canary"] = can
    try:
        bu = V.build_unit(repo, unit, v)
    except Undecided as e:
        return {"unit": unit_name, "canary": "undecided", "detail": str(e)}
    bu.name = bu.name + "_canary"
    r = V.run_verus(bu, os.path.join(workdir, unit_name + "_canary"), rlimit=30)
    sem = [d for d in r["diags"] if d["level"] == "error" and V.is_semantic(d["msg"])]
    if r["rc"] != 0 and sem:
        return {"unit": unit_name, "canary": "fails-as-required", "fn": can["fn"], "negated": can.get("negated") or can["replace"][0], "message": sem[0]["msg"]}
    if r["rc"] == 0:
        return {"unit": unit_name, "canary": "VERIFIED-BUT-MUST-FAIL", "fn": can["fn"]}
    return {"unit": unit_name, "canary": "undecided", "detail": r["stderr"][-1500:]}


def main(argv=None):
    argv = list(sys.argv[1:] if argv is None else argv)
    from . import registry
    if not argv:
        print(__doc__)
        return 2
    prop = argv[0]
    tier = os.environ.get("VERIF_TIER", "quick")
    repo = "/repo"
    keep = False
    i = 1
    while i < len(argv):
        if argv[i] == "--tier":
            tier = argv[i + 1]
            i += 2
        elif argv[i] == "--repo":
            repo = argv[i + 1]
            i += 2
        elif argv[i] == "--keep":
            keep = True
            i += 1
        else:
            i += 1
    if tier not in ("quick", "thorough"):
        tier = "quick"
    seed = int(os.environ.get("VERIF_SEED", "0") or 0)
    t0 = time.time()
    spec = registry.PROPS.get(prop)
    if spec is None:
        print("unknown or unclaimed property %s" % prop)
        return 2
    logs = []

    def log(m):
        logs.append(m)
        print(m, flush=True)

    workdir = tempfile.mkdtemp(prefix="verif_%s_" % prop)
    results = []
    canaries = []
    rc = 0
    try:
        for ent in spec.get("verus", []):
            unit_name, variant = ent[0], ent[1]
            only_fns = ent[2] if len(ent) > 2 else None
            log("[verus] unit %s %s %s" % (unit_name, variant or "", only_fns or ""))
            if variant and "any_of" in variant:
                # alternative representation invariants: the unit's obligations hold if they are all discharged under ONE of the
                # listed variants (each variant states an invariant, proves that every operation keeps it and that the consumer is
                # correct under it).  Verdict: the first passing variant; if none passes, the first variant that has a refutation;
                # otherwise undecided.
                tried = []
                for alt in variant["any_of"]:
                    ra = run_verus_unit(repo, unit_name, dict(alt), workdir, log, only_fns)
                    log("  variant %s -> %s" % (alt, ra["status"]))
                    tried.append((alt, ra))
                    if ra["status"] == "pass":
                        break
                # a later variant may only take over from an earlier one that was REFUTED on its invariant obligations alone (the unit
                # lists them): an earlier variant that is undecided, or that fails anything else, is not overruled by a weaker pass
                inv_obls = tuple(getattr(importlib.import_module("units." + unit_name), "INVARIANT_OBLIGATIONS", ()))
                def _only_invariant_failures(x):
                    return x["status"] == "violation" and x.get("failures") and all(any(o in f["obligation"] for o in inv_obls) for f in x["failures"])
                pick = None
                for idx, (alt, ra) in enumerate(tried):
                    if ra["status"] == "pass":
                        if all(_only_invariant_failures(e[1]) for e in tried[:idx]):
                            pick = (alt, ra)
                        else:
                            bad = next(e for e in tried[:idx] if not _only_invariant_failures(e[1]))
                            pick = (bad[0], bad[1])
                            if bad[1]["status"] != "violation":
                                bad[1]["undecided"] = list(bad[1].get("undecided", [])) + ["a weaker variant %s passes, but it does not carry this variant's obligations" % (alt,)]
                        break
                if pick is None:
                    pick = next((x for x in tried if x[1].get("failures")), None) or tried[0]
                r = pick[1]
                variant = dict(pick[0])
                r["alternatives_tried"] = [{"variant": a, "status": x["status"], "failed": [f["obligation"] for f in x.get("failures", [])],
                                            "undecided": x.get("undecided", [])} for a, x in tried]
            elif variant and "refute_with" in variant:
                # a unit whose full contract needs the code to keep a certain shape (e.g. a closure with a spliced contract) may
                # name weaker variants that drop the shape-dependent parts and keep only obligations carried by stand-in
                # preconditions.  They are consulted only when the full variant is UNDECIDED, and only a refutation counts:
                # a weaker variant that passes leaves the verdict undecided.
                base = {k: v for k, v in variant.items() if k != "refute_with"}
                r = run_verus_unit(repo, unit_name, base, workdir, log, only_fns)
                if r["status"] == "undecided":
                    for alt in variant["refute_with"]:
                        ra = run_verus_unit(repo, unit_name, dict(alt), workdir, log, only_fns)
                        log("  full variant undecided; weaker variant %s -> %s" % (alt, ra["status"]))
                        if ra.get("failures"):
                            ra["full_variant_undecided"] = r.get("undecided", [])
                            r = ra
                            break
                variant = base
            else:
                r = run_verus_unit(repo, unit_name, variant, workdir, log, only_fns)
            if r["status"] == "undecided" and any("number of loops changed: expected 0" in u for u in r.get("undecided", [])):
                # a loop was added to a loop-free function under contract: look for a refutation on the paths with at most one
                # iteration of it (R32).  Only a refutation counts; anything else leaves the verdict undecided.
                ra = run_verus_unit(repo, unit_name, dict(variant or {}, unroll_extra_loops=True), workdir, log, only_fns)
                log("  loop added to a loop-free function; bounded refutation search (R32, <= 1 iteration) -> %s" % ra["status"])
                if ra.get("failures"):
                    ra["full_variant_undecided"] = r.get("undecided", [])
                    ra["bounded_note"] = "refuted on the paths with at most one iteration of the added loop (R32)"
                    for _f in ra["failures"]:
                        _f["bounded_note"] = ra["bounded_note"]
                    r = ra
            results.append(r)
            log("  -> %s  obligations=%s discharged=%s  %.1fs" % (r["status"], r.get("obligations"), r.get("discharged"), r.get("wall_s", 0)))
            if r["status"] == "pass":
                c = canary_check(repo, unit_name, variant, workdir, r.get("_unit"))
                canaries.append(c)
                if c["canary"] == "VERIFIED-BUT-MUST-FAIL":
                    r["status"] = "undecided"
                    r["undecided"].append("canary verified: prelude is contradictory or the contract is vacuous")
                elif c["canary"] == "undecided":
                    r["status"] = "undecided"
                    r["undecided"].append("canary run undecided: %s" % c.get("detail"))
        if spec.get("kani"):
            from . import kani as K
            kres = K.run_group(repo, prop, spec["kani"], tier, workdir, log)
            results.extend(kres)
        rc = finish(prop, tier, seed, spec, results, canaries, t0, log)
    except Exception:
        traceback.print_exc()
        write_evidence(prop, tier, seed, spec, results, canaries, t0, extra={"internal_error": traceback.format_exc()[-2000:]})
        rc = 2
    finally:
        if not keep:
            shutil.rmtree(workdir, ignore_errors=True)
        else:
            print("kept", workdir)
    return rc


def replay_path(prop, name):
    d = os.path.join(ROOT, "replays", prop)
    os.makedirs(d, exist_ok=True)
    safe = "".join(c if c.isalnum() or c in "-_." else "_" for c in name)[:120]
    return os.path.join(d, safe + ".json")


def finish(prop, tier, seed, spec, results, canaries, t0, log):
    known = load_known_findings()
    violations = []
    known_hits = []
    undecided = []
    for r in results:
        if r["status"] == "undecided":
            undecided.append(r)
        for f in r.get("failures", []):
            f = dict(f)
            f["unit"] = r["unit"]
            f["engine"] = r["engine"]
            # replay: for verus failures try the unit's native replay search
            if r["engine"] == "verus":
                from . import replay
                rp = replay.search(prop, r, f, log)
                f.update(rp)
            key = "property=%s obligation=%s" % (prop, f["obligation"])
            matched = None
            for line in known["open"]:
                if line.startswith("property=%s " % prop) and ("obligation=%s" % f["obligation"]) in line:
                    want = line.split("input=", 1)[1].strip() if "input=" in line else None
                    if want is None or want == str(f.get("failing_input")):
                        matched = line
            if matched:
                known_hits.append((f, matched))
            else:
                violations.append(f)
    ev_extra = {}
    for f, line in known_hits:
        print("KNOWN-FINDING: %s" % line, flush=True)
    nviol = 0
    for f in violations:
        path = replay_path(prop, f["obligation"])
        with open(path, "w") as fh:
            json.dump({"property": prop, "failed_obligation": f["obligation"], "function": f.get("function"),
                       "kind": f.get("kind"), "clause": f.get("clause"), "origin": f.get("origin"),
                       "related": f.get("related"), "verifier_output": f.get("verifier_output"),
                       "failing_input": f.get("failing_input"), "replay_native": f.get("replay_native"), "bounded": f.get("bounded_note"),
                       "how_to_replay": f.get("how_to_replay")}, fh, indent=1)
        suffix = "" if f.get("failing_input") is not None else " no-failing-input-found"
        print("VIOLATION property=%s replay=%s obligation=%s%s" % (prop, path, f["obligation"].replace(" ", "_"), suffix), flush=True)
        nviol += 1
    write_evidence(prop, tier, seed, spec, results, canaries, t0, violations=nviol, known=[l for _, l in known_hits])
    if nviol:
        return 1
    if undecided:
        for r in undecided:
            for u in r.get("undecided", []):
                print("UNDECIDED property=%s unit=%s: %s" % (prop, r["unit"], u), flush=True)
        return 2
    print("OK property=%s tier=%s obligations=%d discharged=%d wall=%.1fs" % (
        prop, tier, sum(r.get("obligations", 0) or 0 for r in results if not r.get("bounded")),
        sum(r.get("discharged", 0) or 0 for r in results if not r.get("bounded")), time.time() - t0), flush=True)
    return 0


def write_evidence(prop, tier, seed, spec, results, canaries, t0, violations=0, known=(), extra=None):
    for r in results:
        r.pop("_unit", None)
    if os.environ.get("VERIF_NO_EVIDENCE"):
        return  # dev runs against scratch trees (bin/muttest) must not overwrite the evidence of /repo
    os.makedirs(os.path.join(ROOT, "evidence"), exist_ok=True)
    proof_units = [r for r in results if not r.get("bounded")]
    bounded = [r for r in results if r.get("bounded")]
    obligations = sum(r.get("obligations", 0) or 0 for r in proof_units)
    discharged = sum(r.get("discharged", 0) or 0 for r in proof_units)
    trusted = list(spec.get("trusted_base", []))
    for r in results:
        for k, v in (r.get("assumption_scan") or {}).items():
            trusted.append("%s: %d x %s in generated unit (see units/%s.py prelude)" % (r["unit"], v, k, r["unit"].split("[")[0]))
        for sc in r.get("syntactic_checks", []) or []:
            trusted.append("%s: ASSUMED, only checked syntactically: %s (%s::%s)" % (r["unit"], sc["why"], sc["file"], sc["fn"]))
        for s in r.get("stubs", []):
            trusted.append("%s: kani stub %s" % (r["unit"], s))
        for fn in r.get("functions", []):
            for rule, n in (fn.get("rewrites") or {}).items():
                trusted.append("%s: rewrite %s applied at %d site(s) in %s" % (r["unit"], rule, n, fn.get("fn") or fn.get("struct")))
    samples = []
    for r in proof_units:
        labs = r.get("obligation_labels") or {}
        for fn, d in list(labs.items())[:6]:
            samples.append({"unit": r["unit"], "function": fn, "obligations": d})
        for h in (r.get("harnesses") or [])[:6]:
            samples.append({"unit": r["unit"], "harness": h.get("name"), "checks": h.get("checks"), "status": h.get("status")})
    if not samples:
        samples = [{"note": "no obligations generated"}]
    ev = {
        "property_id": prop,
        "tier": tier,
        "seed": seed,
        "level": "proof",
        "coverage": {
            "obligations": obligations,
            "discharged": discharged,
            "checker_cmd": "; ".join(sorted(set(r.get("cmd", "") for r in results if r.get("cmd"))))[:4000] or "none",
            "trusted_base": trusted,
            "samples": samples[:24],
            "functions_under_contract": [dict(unit=r["unit"], **fn) for r in results for fn in r.get("functions", [])],
            "units": [{"unit": r["unit"], "engine": r["engine"], "backend": r.get("backend"), "status": r["status"],
                       "obligations": r.get("obligations"), "discharged": r.get("discharged"),
                       "solver_s": r.get("solver_s"), "wall_s": r.get("wall_s"), "bounded": r.get("bounded", False),
                       "bound": r.get("bound"), "undecided": r.get("undecided")} for r in results],
            "bounded_units": [{"unit": r["unit"], "bound": r.get("bound"), "status": r["status"],
                               "checks": r.get("obligations")} for r in bounded],
            "canaries": canaries,
            "unreached": spec.get("unreached", []),
            "known_findings_matched": list(known),
            "explanation": spec.get("explanation", ""),
        },
        "assumptions": list(spec.get("assumptions", [])),
        "wall_s": round(time.time() - t0, 2),
        "violations": violations,
    }
    if extra:
        ev["coverage"].update(extra)
    with open(os.path.join(ROOT, "evidence", prop + ".json"), "w") as fh:
        json.dump(ev, fh, indent=1)


if __name__ == "__main__":
    sys.exit(main())
