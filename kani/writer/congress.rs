// Appended to metrique-writer/src/sample/congress.rs under #[cfg(kani)] in a scratch copy (C12, per-group steps).
#[cfg(kani)]
mod verif_kani {
    use super::*;

    // ExpMovingAverage::add_sample from ANY state with samples <= 16: the sample counter saturates at the window
    // (so `samples + 1` can never overflow on the next step: inductive).  The float update itself
    // (decay * sample + (1 - decay) * value, two symbolic f32 products) is out of CBMC's reach and NOT claimed.
    #[kani::proof]
    fn ema_add_sample_counter_step() {
        let mut e = ExpMovingAverage { samples: kani::any(), value: kani::any() };
        kani::assume(e.samples <= EXP_MOVING_AVERAGE_WINDOW);
        kani::assume(e.value.is_finite() && e.value >= 0.0 && e.value <= 4.0e9);
        let old = e;
        let n: u32 = kani::any();
        e.add_sample(n as f32);
        assert!(e.samples >= 1 && e.samples <= EXP_MOVING_AVERAGE_WINDOW);
        assert!(e.samples == if old.samples >= 16 { 16 } else { old.samples + 1 });
    }
    // the first sample ever seen is taken as is (decay = 1)
    #[kani::proof]
    fn ema_first_sample_is_taken_as_is() {
        let mut e = ExpMovingAverage::default();
        let n: u32 = kani::any();
        let sample = n as f32;
        e.add_sample(sample);
        assert!(e.samples == 1 && e.value == sample);
    }

    // GroupState::update_and_retain: the TTL automaton, from ANY state with the invariant.
    #[kani::proof]
    fn group_state_update_and_retain_step() {
        let mut g = GroupState {
            current_observed: kani::any(),
            consecutive_no_observations: kani::any(),
            average_observed: ExpMovingAverage { samples: kani::any(), value: kani::any() },
            sample_rate: kani::any(),
            size_in_congress: kani::any(),
        };
        kani::assume(g.consecutive_no_observations <= NO_OBSERVATIONS_TTL);
        kani::assume(g.average_observed.samples <= EXP_MOVING_AVERAGE_WINDOW);
        let old = g;
        let keep = g.update_and_retain();
        assert!(g.current_observed == 0); // the interval counter is always reset
        assert!(g.sample_rate.to_bits() == old.sample_rate.to_bits()); // rates are only set by update_rates
        if old.current_observed > 0 {
            assert!(keep && g.consecutive_no_observations == 0);
            assert!(g.average_observed.samples >= 1);
        } else if old.consecutive_no_observations >= NO_OBSERVATIONS_TTL {
            assert!(!keep); // dropped exactly after TTL empty intervals
        } else {
            assert!(keep && g.consecutive_no_observations == old.consecutive_no_observations + 1);
            assert!(g.average_observed.value.to_bits() == old.average_observed.value.to_bits());
        }
        assert!(g.consecutive_no_observations <= NO_OBSERVATIONS_TTL); // invariant preserved
        kani::cover!(!keep, "drop reachable");
    }

    // record_observation counts one (overflow of the u32 interval counter is a stated precondition)
    #[kani::proof]
    fn group_state_record_observation() {
        let mut g = GroupState { current_observed: kani::any(), ..Default::default() };
        kani::assume(g.current_observed < u32::MAX);
        let old = g.current_observed;
        g.record_observation();
        assert!(g.current_observed == old + 1);
    }

    // ---- update_rates: the REAL body (copied each run into verif_kani_gen::VerifCongress::update_rates, see
    // kani/writer/gen_congress.py) on 0..=2 groups in ANY state that satisfies the per-group invariant.
    // Decided here: every rate is a number in [0,1]; all rates are exactly 1 when the interval saw no more than the
    // target; the interval counter is reset; groups are only dropped by the TTL rule.
    // NOT decided: rate > 0, the budget sum(avg x rate) <= target and monotonicity (relational float facts).
    fn any_group() -> GroupState {
        let g = GroupState {
            current_observed: kani::any(),
            consecutive_no_observations: kani::any(),
            average_observed: ExpMovingAverage { samples: kani::any(), value: kani::any() },
            sample_rate: kani::any(),
            size_in_congress: kani::any(),
        };
        kani::assume(g.consecutive_no_observations <= NO_OBSERVATIONS_TTL);
        kani::assume(g.average_observed.samples <= EXP_MOVING_AVERAGE_WINDOW);
        // averages are moving averages of per-interval counts: finite and non-negative
        kani::assume(g.average_observed.value.is_finite() && g.average_observed.value >= 0.0);
        g
    }
    fn check_update_rates(n: usize) {
        use super::verif_kani_gen::*;
        let mut c = VerifCongress {
            target_observed: kani::any(),
            current_observed: kani::any(),
            groups: VerifGroups { data: [any_group(), any_group()], len: n },
        };
        kani::assume(c.target_observed >= 1);
        let before = c.current_observed;
        let target = c.target_observed;
        c.update_rates();
        assert!(c.current_observed == 0);
        assert!(c.groups.len <= n);
        let mut i = 0;
        while i < c.groups.len {
            let r = c.groups.data[i].sample_rate;
            assert!(!r.is_nan());                       // a rate is always a number
            assert!(r <= 1.0);                          // ... never above 1
            assert!(r >= 0.0);                          // ... never negative
            if before <= target { assert!(r == 1.0); }  // no sampling while the interval stayed within the target
            i += 1;
        }
        kani::cover!(c.groups.len == n && before > target, "sampling branch reachable with all groups kept");
    }
    #[kani::proof]
    #[kani::unwind(4)]
    fn update_rates_one_group() { check_update_rates(1) }
    #[kani::proof]
    #[kani::unwind(4)]
    fn update_rates_two_groups() { check_update_rates(2) }
    #[kani::proof]
    #[kani::unwind(4)]
    fn update_rates_no_group() { check_update_rates(0) }
}
