"""Which units decide which property.  verus: [(unit, variant)], kani: [group names]."""

PROPS = {
    "C04": dict(
        verus=[("waker", {})],
        technique="Verus function contracts on the extracted real WakerTracker methods (step refinement) + inductive lemmas over histories",
        level_text="Deductive proof (Verus/z3) that the real handle_waiting_wakers / will_progress_on_drained_queue bodies refine an abstract step for all states and arguments, "
                   "that the stream is flushed before any held flush signal is released, and unbounded lemmas S1 (no early wake), L1 (bounded wake), S2 (no busy loop) over all step histories. "
                   "Cross-thread happens-before and the run-loop wiring are assumed, not proved.",
        level_note="Trusted: std mpsc try_recv (any result), tokio oneshot Sender drop = completion, derived PartialEq on DrainResult is structural, rewrite R1 (one tracing::debug! line dropped), "
                   "termination of the try_recv loop, Verus + z3.",
        explanation="WakerTracker step contract (real code, verbatim) + unbounded lemmas S1/S2/L1 over the abstract step",
        assumptions=[
            "happens-before of mpsc send -> try_recv and of oneshot Sender drop -> receiver completion (std / tokio)",
            "P1/P2 of the WakerTracker comment: status==Drained means the queue was observed empty since the previous call; "
            "the capacity callback returns an upper bound of the entries queued when the signals were collected (run loop wiring, read not proved)",
            "termination of the `while let Ok(..) = try_recv()` loop (exec_allows_no_decreases_clause): not proved",
        ],
        unreached=["Inner::flush_async (send, unpark, future)", "Receiver::run wiring of drain -> handle_waiting_wakers -> park"],
    ),
}
