// Native replay search for unit emf_value (C02/C03 metric-value fragment).
// Enumerates small distributions through the PUBLIC API of the real crate and checks the same
// postcondition the Verus contracts state.  It never decides anything: it only looks for a
// concrete failing input to attach to a failed obligation.
use metrique_writer::{
    Entry, EntryWriter,
    format::Format,
    sample::SampledFormat,
    unit::Unit,
    value::{MetricFlags, Observation, Value, ValueWriter},
};
use metrique_writer_format_emf::{Emf, HighStorageResolution, NoMetric};

#[derive(Clone, Copy, Debug, PartialEq)]
enum Flag { None, High, NoMetric }

struct Dist(Vec<Observation>, Unit);
impl Value for Dist {
    fn write(&self, writer: impl ValueWriter) {
        writer.metric(self.0.iter().copied(), self.1, [], MetricFlags::empty())
    }
}
struct E(Vec<(String, Vec<Observation>, Unit, Flag)>);
impl Entry for E {
    fn write<'a>(&'a self, writer: &mut impl EntryWriter<'a>) {
        writer.timestamp(std::time::SystemTime::UNIX_EPOCH + std::time::Duration::from_millis(1234));
        for (n, d, u, f) in &self.0 {
            match f {
                Flag::None => writer.value(n.clone(), &Dist(d.clone(), *u)),
                Flag::High => writer.value(n.clone(), &HighStorageResolution::from(Dist(d.clone(), *u))),
                Flag::NoMetric => writer.value(n.clone(), &NoMetric::from(Dist(d.clone(), *u))),
            }
        }
    }
}

fn clamp(v: f64) -> Option<f64> { if v.is_nan() { None } else { Some(v.clamp(-f64::MAX, f64::MAX)) } }

/// reference interpretation: (values, counts) of usable observations
fn reference(d: &[Observation], mult: Option<u64>) -> Vec<(f64, u64)> {
    let m = mult.unwrap_or(1);
    d.iter().filter_map(|o| match *o {
        Observation::Unsigned(v) => Some((v as f64, m)),
        Observation::Floating(v) => clamp(v).map(|v| (v, m)),
        Observation::Repeated { total, occurrences } => {
            let mean = if occurrences == 0 { 0.0 } else { total / occurrences as f64 };
            clamp(mean).map(|v| (v, occurrences.saturating_mul(m)))
        }
        _ => None,
    }).collect()
}

fn check(entry: &E, mult: Option<u64>) -> Result<(), String> {
    let mut out = Vec::new();
    let emf = Emf::all_validations("NS".into(), vec![vec![]]);
    match mult {
        None => { let mut emf = emf; emf.format(entry, &mut out).map_err(|e| format!("format error {e:?}"))?; }
        Some(m) => {
            // rate = 1/m for a power of two m is exact, so the multiplicity is exactly m
            let mut s = emf.with_sampling();
            s.format_with_sample_rate(entry, &mut out, 1.0 / m as f32).map_err(|e| format!("format error {e:?}"))?;
        }
    }
    let s = String::from_utf8(out).map_err(|e| format!("not utf8: {e}"))?;
    if !s.ends_with('\n') { return Err(format!("not newline-terminated: {s:?}")); }
    let mut declared: Vec<serde_json::Value> = vec![];
    let mut members = serde_json::Map::new();
    for line in s.lines() {
        let v: serde_json::Value = serde_json::from_str(line).map_err(|e| format!("invalid JSON ({e}): {line}"))?;
        let o = v.as_object().ok_or("not an object")?;
        let aws = o.get("_aws").and_then(|a| a.as_object()).ok_or("no _aws")?;
        if !aws.get("Timestamp").map(|t| t.is_u64()).unwrap_or(false) { return Err(format!("bad Timestamp: {line}")); }
        for dir in aws.get("CloudWatchMetrics").and_then(|c| c.as_array()).ok_or("no CloudWatchMetrics")? {
            for m in dir.get("Metrics").and_then(|m| m.as_array()).ok_or("no Metrics")? { declared.push(m.clone()); }
        }
        for (k, v) in o { if k != "_aws" { members.insert(k.clone(), v.clone()); } }
    }
    for (name, d, unit, flag) in &entry.0 {
        let r = reference(d, mult);
        let decl: Vec<_> = declared.iter().filter(|m| m.get("Name").and_then(|n| n.as_str()) == Some(name)).collect();
        if r.is_empty() {
            if members.contains_key(name) { return Err(format!("metric {name} with no usable observation is present: {s}")); }
            if !decl.is_empty() { return Err(format!("metric {name} with no usable observation is declared: {s}")); }
            continue;
        }
        let got = members.get(name).ok_or(format!("metric {name} missing: {s}"))?;
        let scalar = d.len() == 1 && mult.is_none() && !matches!(d[0], Observation::Repeated { .. });
        if scalar {
            let g = got.as_f64().ok_or(format!("{name}: expected a number: {s}"))?;
            if g != r[0].0 { return Err(format!("{name}: value {g} != {}", r[0].0)); }
        } else {
            let vals = got.get("Values").and_then(|v| v.as_array()).ok_or(format!("{name}: no Values: {s}"))?;
            let cnts = got.get("Counts").and_then(|v| v.as_array()).ok_or(format!("{name}: no Counts: {s}"))?;
            if vals.len() != r.len() || cnts.len() != r.len() { return Err(format!("{name}: lengths {} / {} != {}: {s}", vals.len(), cnts.len(), r.len())); }
            for (i, (v, c)) in r.iter().enumerate() {
                if vals[i].as_f64() != Some(*v) { return Err(format!("{name}: Values[{i}] = {} != {v}", vals[i])); }
                if cnts[i].as_u64() != Some(*c) { return Err(format!("{name}: Counts[{i}] = {} != {c}", cnts[i])); }
            }
        }
        match flag {
            Flag::NoMetric => if !decl.is_empty() { return Err(format!("{name}: declared although no-metric: {s}")); },
            _ => {
                if decl.len() != 1 { return Err(format!("{name}: declared {} times: {s}", decl.len())); }
                let want_unit = if *unit == Unit::None { None } else { Some(unit.name()) };
                if decl[0].get("Unit").and_then(|u| u.as_str()) != want_unit { return Err(format!("{name}: unit {:?} != {:?}", decl[0].get("Unit"), want_unit)); }
                let want_res = if *flag == Flag::High { Some(1) } else { None };
                if decl[0].get("StorageResolution").and_then(|u| u.as_u64()) != want_res { return Err(format!("{name}: storage resolution {:?}", decl[0].get("StorageResolution"))); }
            }
        }
    }
    Ok(())
}

#[test]
fn verif_replay_search() {
    let atoms = [
        Observation::Unsigned(7),
        Observation::Floating(1.0),
        Observation::Floating(2.5),
        Observation::Floating(f64::NAN),
        Observation::Floating(f64::INFINITY),
        Observation::Floating(-0.0),
        Observation::Repeated { total: 0.0, occurrences: 0 },
        Observation::Repeated { total: 3.0, occurrences: 2 },
        Observation::Repeated { total: f64::NAN, occurrences: 2 },
        Observation::Repeated { total: 1e30, occurrences: u64::MAX },
    ];
    let mut dists: Vec<Vec<Observation>> = vec![vec![]];
    for a in atoms { dists.push(vec![a]); }
    for a in atoms { for b in atoms { dists.push(vec![a, b]); } }
    for a in atoms { for b in atoms { for c in atoms { dists.push(vec![a, b, c]); } } }
    let mut n = 0u64;
    for mult in [None, Some(4u64)] {
        for d in &dists {
            for (unit, flag) in [(Unit::None, Flag::None), (Unit::Count, Flag::High), (Unit::Custom("we\"ird"), Flag::NoMetric)] {
                // the metric under test between two plain neighbours (catches comma / truncate damage)
                let e = E(vec![
                    ("A".to_string(), vec![Observation::Unsigned(1)], Unit::None, Flag::None),
                    ("M\"x\\".to_string(), d.clone(), unit, flag),
                    ("Z".to_string(), vec![Observation::Unsigned(2), Observation::Unsigned(3)], Unit::Count, Flag::None),
                ]);
                n += 1;
                if let Err(msg) = check(&e, mult) {
                    println!("FAILING_INPUT: distribution={d:?} multiplicity={mult:?} unit={unit:?} flag={flag:?}");
                    println!("FAILURE: {msg}");
                    panic!("postcondition violated");
                }
            }
        }
    }
    println!("SEARCHED: {n} inputs, no failing input");
}
