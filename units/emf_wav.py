"""Unit `emf_wav` (C16): write_all_vectored (metrique-writer-format-emf/src/buf.rs) under contract.

The loop (offer what is left, match on the writer's answer, advance, clear) is the real text.  Four statements that
only convert between container types are rewritten (pinned, exact text): they have no Verus counterpart
(iterator adapters over SmallVec, re-slicing `&mut v[..]`) and are replaced by stand-ins that keep the byte content:

  W0  debug_assert!(!bufs.is_empty() && bufs.len() <= N);                       -> dropped (release profile; not checked)
  W1  bufs.iter().map(AsRef::as_ref).collect()                                   -> verif_collect_as_ref(&bufs)
  W2  let mut slices = &mut slices[..];                                          -> dropped (whole-range view of the same vector)
  W3  io_slices.extend(slices.iter().map(|&s| io::IoSlice::new(s)));             -> io_slices.verif_extend_from(&slices);

advance_slices is assumed with exactly the contract that the Kani harnesses advance_slices_{1,2,3,5} check on the real
function (kani/emf/buf.rs); io::Write::write_vectored is the environment: any accepted count 0..=offered, or an error
after which nothing was taken (std's documented contract)."""

NAME = "emf_wav"
PROPERTIES = ["C16"]
BUF = "metrique-writer-format-emf/src/buf.rs"


def _stmt(name, old, new, doc):
    def f(text):
        n = text.count(old)
        return text.replace(old, new), n
    f.__name__ = name
    f.__doc__ = doc
    return f


w0 = _stmt("w0_debug_assert", "debug_assert!(!bufs.is_empty() && bufs.len() <= N);", "", "W0")
w1 = _stmt("w1_collect_as_ref", "bufs.iter().map(AsRef::as_ref).collect()", "verif_collect_as_ref(&bufs)", "W1")
w2 = _stmt("w2_reslice", "let mut slices = &mut slices[..];", "", "W2")
w3 = _stmt("w3_extend_ioslices", "io_slices.extend(slices.iter().map(|&s| io::IoSlice::new(s)));", "io_slices.verif_extend_from(&slices);", "W3")

PRELUDE = r'''
use vstd::std_specs::convert::FromSpecImpl;
pub struct IoError { pub v: u8 }
#[verifier::external_type_specification]
pub struct ExErrorKind(std::io::ErrorKind);
// comparisons on ErrorKind are unspecified: any kind is possible for any error
pub assume_specification[ <std::io::ErrorKind as PartialEq>::eq ](a: &std::io::ErrorKind, b: &std::io::ErrorKind) -> (r: bool);
impl IoError {
    #[verifier::external_body]
    pub fn kind(&self) -> std::io::ErrorKind { unimplemented!() }
}
impl core::convert::From<std::io::ErrorKind> for IoError {
    #[verifier::external_body]
    fn from(k: std::io::ErrorKind) -> IoError { unimplemented!() }
}

// concatenation of a list of byte slices
pub open spec fn flat(s: Seq<Seq<u8>>) -> Seq<u8>
    decreases s.len()
{
    if s.len() == 0 { Seq::<u8>::empty() } else { s[0] + flat(s.subrange(1, s.len() as int)) }
}

// stand-in for smallvec::SmallVec<[T; N]> where T denotes a byte slice (V: AsRef<[u8]>, &[u8], io::IoSlice)
#[verifier::external_body]
#[verifier::reject_recursive_types(A)]
pub struct SmallVec<A> { _p: core::marker::PhantomData<A> }
impl<A> SmallVec<A> {
    // the byte slices the elements denote, in order
    pub uninterp spec fn chunks(&self) -> Seq<Seq<u8>>;
    #[verifier::external_body]
    pub fn new() -> (r: Self) ensures r.chunks().len() == 0 { unimplemented!() }
    #[verifier::external_body]
    pub fn is_empty(&self) -> (r: bool) ensures r == (self.chunks().len() == 0) { unimplemented!() }
    #[verifier::external_body]
    pub fn len(&self) -> (r: usize) ensures r == self.chunks().len() { unimplemented!() }
    #[verifier::external_body]
    pub fn clear(&mut self) ensures final(self).chunks().len() == 0 { unimplemented!() }
    // W3: extend(other.iter().map(|&s| IoSlice::new(s))) - appends one IoSlice per slice, same bytes
    #[verifier::external_body]
    pub fn verif_extend_from<B>(&mut self, other: &SmallVec<B>)
        ensures final(self).chunks() == old(self).chunks() + other.chunks()
    { unimplemented!() }
}
// W1: bufs.iter().map(AsRef::as_ref).collect() - one &[u8] per buffer, same bytes
#[verifier::external_body]
pub fn verif_collect_as_ref<'a, V: AsRef<[u8]>, const N: usize>(b: &'a SmallVec<[V; N]>) -> (r: SmallVec<[&'a [u8]; N]>)
    ensures r.chunks() == b.chunks()
{ unimplemented!() }

pub mod io {
    use vstd::prelude::*;
    pub use std::io::ErrorKind;
    pub type Error = super::IoError;
    pub type Result<T> = core::result::Result<T, super::IoError>;
    pub struct IoSlice<'a> { pub b: &'a [u8] }
    // The environment (assumed, std::io::Write's documented contract): a call takes the first n <= offered bytes of
    // the concatenated buffers, in order, or fails having taken nothing.  Which of these happens, and n, are arbitrary.
    pub trait Write {
        spec fn received(&self) -> Seq<u8>;
        fn write_vectored<A>(&mut self, bufs: &super::SmallVec<A>) -> (r: core::result::Result<usize, super::IoError>)
            ensures
                match r {
                    Ok(n) => n <= super::flat(bufs.chunks()).len()
                             && final(self).received() == old(self).received() + super::flat(bufs.chunks()).take(n as int),
                    Err(e) => final(self).received() == old(self).received(),
                };
    }
}

// advance_slices: contract checked on the real function by the Kani harnesses advance_slices_{1,2,3,5}
// (remaining bytes are exactly the suffix after `count`; no leading empty slice; overrun panics)
#[verifier::external_body]
pub fn advance_slices<A>(slices: &mut SmallVec<A>, count: usize)
    requires count <= flat(old(slices).chunks()).len(),
    ensures
        flat(final(slices).chunks()) == flat(old(slices).chunks()).skip(count as int),
        final(slices).chunks().len() > 0 ==> final(slices).chunks()[0].len() > 0,
        (final(slices).chunks().len() == 0) == (count == flat(old(slices).chunks()).len()),
{ unimplemented!() }

pub proof fn lemma_flat_empty(s: Seq<Seq<u8>>)
    requires s.len() == 0,
    ensures flat(s) == Seq::<u8>::empty(),
{}
'''

ITEMS = [
    dict(kind="fn", file=BUF, impl=None, name="write_all_vectored", ret="r",
         attrs=["#[verifier::exec_allows_no_decreases_clause]"],
         impl_trait_args=True,
         rules={"w0_debug_assert": 1, "w1_collect_as_ref": 1, "w2_reslice": 1, "w3_extend_ioslices": 1},
         extra_rewrites=[w0, w1, w2, w3],
         ensures="""
            // C16: however the writer splits, shortens or interrupts the writes, on success it has received exactly the
            // buffers' bytes, in order, nothing duplicated or omitted
            r is Ok ==> final(output).received() == old(output).received() + flat(bufs.chunks()),          // OBL success_means_exact_bytes
            // a hard error (or Ok(0)) is surfaced after a prefix of the bytes - never a duplicate or a reordering
            r is Err ==> exists|k: int| 0 <= k <= flat(bufs.chunks()).len()
                && final(output).received() == old(output).received() + #[trigger] flat(bufs.chunks()).take(k),   // OBL error_after_a_prefix_only
         """,
         loops={1: """
            invariant
                io_slices.chunks().len() == 0,                                                                // OBL offered_list_rebuilt_each_round
                exists|k: int| 0 <= k <= flat(bufs.chunks()).len()
                    && output.received() == old(output).received() + #[trigger] flat(bufs.chunks()).take(k)
                    && flat(slices.chunks()) == flat(bufs.chunks()).skip(k),                                  // OBL received_plus_remaining_is_all
                slices.chunks().len() > 0 ==> slices.chunks()[0].len() > 0,
                (slices.chunks().len() == 0) == (flat(slices.chunks()).len() == 0),
         """},
         proofs=[
             ("before", "advance_slices ( & mut slices , 0 ) ;",
              """proof { assert(flat(bufs.chunks()).take(0) =~= Seq::<u8>::empty());
                         assert(old(output).received() + Seq::<u8>::empty() =~= old(output).received());
                         assert(flat(bufs.chunks()).skip(0) =~= flat(bufs.chunks())); }"""),
             ("before", "while ! slices . is_empty ( )",
              """proof { assert(flat(slices.chunks()) == flat(bufs.chunks()).skip(0));
                         if slices.chunks().len() == 0 { lemma_flat_empty(slices.chunks()); }
                         else { assert(flat(slices.chunks()).len() >= slices.chunks()[0].len()); } }"""),
             ("before", "match output . write_vectored ( & io_slices )",
              """let ghost verif_rec1 = output.received();
                 let ghost verif_rem1 = flat(slices.chunks());
                 let ghost verif_k1 = choose|k: int| 0 <= k <= flat(bufs.chunks()).len()
                    && output.received() == old(output).received() + #[trigger] flat(bufs.chunks()).take(k)
                    && flat(slices.chunks()) == flat(bufs.chunks()).skip(k);
                 proof { assert(io_slices.chunks() =~= slices.chunks()); }"""),
             ("after", "Err ( e ) => return Err ( e ) , }",
              """proof {
                    let full = flat(bufs.chunks());
                    if output.received() != verif_rec1 {
                        let n = output.received().len() - verif_rec1.len();
                        assert(output.received() == verif_rec1 + verif_rem1.take(n));
                        assert(full.take(verif_k1) + full.skip(verif_k1).take(n) =~= full.take(verif_k1 + n));
                        assert(full.skip(verif_k1).skip(n) =~= full.skip(verif_k1 + n));
                        assert(output.received() =~= old(output).received() + full.take(verif_k1 + n));
                    }
                    if slices.chunks().len() == 0 { lemma_flat_empty(slices.chunks()); }
                    else { assert(flat(slices.chunks()).len() >= slices.chunks()[0].len()); }
                 }"""),
         ]),
]

POSTLUDE = ""
CANARY = dict(fn="write_all_vectored", replace=("r is Ok ==> final(output).received() == old(output).received() + flat(bufs.chunks()),", "r is Ok ==> final(output).received() == old(output).received(),"))
