"""Unit `boxed` (C15): the BoxEntry double-dispatch bridge (metrique-writer-core/src/entry/boxed.rs) is transparent.

Every adapter method is extracted verbatim (R14 for argument-position impl Trait; B1 `X.iter().copied()` -> verif_copied(X)).
The Dyn* trait declarations are restated in the prelude with contracts (the extracted impls must type-check against them).

Contract style: a by-value ValueWriter is consumed by the one call made on it, so "what the writer received" is an
effect witness `w.got(call)` that only the writer's own method contract can establish; a dyn value writer is the
same thing behind `&mut` with a `usable()` flag (the bridge stores the by-value writer in an Option and takes it).
Entry writers are `&mut` and carry a ghost log of items.  Transparency = each adapter forwards exactly one call with
the same content (iterator arguments: the same elements in the same order)."""

NAME = "boxed"
PROPERTIES = ["C15"]
BOXED = "metrique-writer-core/src/entry/boxed.rs"


def b1_iter_copied(text):
    """X.iter().copied()  ->  verif_copied(X)   (X an identifier): the slice's elements, by value, in order"""
    import re
    n = len(re.findall(r"\b([a-z_]+)\.iter\(\)\.copied\(\)", text))
    return re.sub(r"\b([a-z_]+)\.iter\(\)\.copied\(\)", r"verif_copied(\1)", text), n


PRELUDE = r'''
// ---- opaque payload types (their content is carried through unchanged) ----------------------------------------
#[verifier::external_body] #[derive(Clone, Copy)] pub struct Observation { _p: u8 }
#[verifier::external_body] #[derive(Clone, Copy)] pub struct Unit { _p: u8 }
#[verifier::external_body] pub struct MetricFlags<'a> { _p: &'a u8 }
#[verifier::external_body] pub struct ValidationError { _p: u8 }
#[verifier::external_body] #[derive(Clone, Copy)] pub struct SystemTime { _p: u8 }
#[verifier::external_body] #[verifier::reject_recursive_types(T)] pub struct Cow<'a, T: ?Sized> { _p: &'a T }
pub trait EntryConfig {}
pub uninterp spec fn flag_id(f: MetricFlags<'_>) -> int;
pub uninterp spec fn cow_text(c: Cow<'_, str>) -> Seq<char>;
pub uninterp spec fn config_id(c: &dyn EntryConfig) -> int;
pub open spec fn dims_view(s: Seq<(&str, &str)>) -> Seq<(Seq<char>, Seq<char>)> { s.map_values(|p: (&str, &str)| (p.0@, p.1@)) }

// what a value writer can be told
pub enum VCall {
    String(Seq<char>),
    Metric(Seq<Observation>, Unit, Seq<(Seq<char>, Seq<char>)>, int),
    Error(ValidationError),
}
pub open spec fn mk_metric(d: Seq<Observation>, u: Unit, m: Seq<(Seq<char>, Seq<char>)>, f: int) -> VCall { VCall::Metric(d, u, m, f) }
// what an entry writer can be told
pub enum Item { Timestamp(SystemTime), Value(Seq<char>, VCall), Config(int) }

// ---- iterator vocabulary (std traits restated with the sequence of elements they stand for; assumed) -----------
pub trait Iterator: Sized {
    type Item;
    spec fn rest(&self) -> Seq<Self::Item>;
    fn next(&mut self) -> (r: Option<Self::Item>)
        ensures
            old(self).rest().len() == 0 ==> r is None && final(self).rest() == old(self).rest(),
            old(self).rest().len() > 0 ==> r == Some(old(self).rest()[0]) && final(self).rest() == old(self).rest().skip(1);
    // std's contract: only bounds
    fn size_hint(&self) -> (r: (usize, Option<usize>))
        ensures r.0 <= self.rest().len(), r.1 is Some ==> self.rest().len() <= r.1->0;
    fn collect<B: FromIterator<Self::Item>>(self) -> (r: B)
        ensures r.collected() == self.rest();
}
pub trait IntoIterator: Sized {
    type Item;
    type IntoIter: Iterator<Item = Self::Item>;
    spec fn elems(&self) -> Seq<Self::Item>;
    fn into_iter(self) -> (r: Self::IntoIter)
        ensures r.rest() == self.elems();
}
pub trait FromIterator<T>: Sized {
    spec fn collected(&self) -> Seq<T>;
}
pub trait Into<T>: Sized {
    spec fn into_spec(self) -> T;
    fn into(self) -> (r: T) ensures r == self.into_spec();
}
#[verifier::external_body]
#[verifier::reject_recursive_types(A)]
pub struct SmallVec<A> { _p: core::marker::PhantomData<A> }
impl<T, const N: usize> SmallVec<[T; N]> {
    pub uninterp spec fn content(&self) -> Seq<T>;
    #[verifier::external_body]
    pub fn as_slice(&self) -> (r: &[T]) ensures r@ == self.content() { unimplemented!() }
    #[verifier::external_body]
    pub fn is_empty(&self) -> (r: bool) ensures r == (self.content().len() == 0) { unimplemented!() }
    #[verifier::external_body]
    pub fn len(&self) -> (r: usize) ensures r == self.content().len() { unimplemented!() }
}
impl<T, const N: usize> FromIterator<T> for SmallVec<[T; N]> {
    open spec fn collected(&self) -> Seq<T> { self.content() }
}
// B1: slice.iter().copied()
#[verifier::external_body]
#[verifier::reject_recursive_types(T)]
pub struct VerifCopied<'s, T> { _p: &'s [T] }
#[verifier::external_body]
#[verifier::reject_recursive_types(T)]
pub struct VerifCopiedIter<'s, T> { _p: &'s [T] }
impl<'s, T: Copy> VerifCopied<'s, T> { pub uninterp spec fn src(&self) -> Seq<T>; }
impl<'s, T: Copy> VerifCopiedIter<'s, T> { pub uninterp spec fn left(&self) -> Seq<T>; }
impl<'s, T: Copy> Iterator for VerifCopiedIter<'s, T> {
    type Item = T;
    open spec fn rest(&self) -> Seq<T> { self.left() }
    #[verifier::external_body] fn next(&mut self) -> (r: Option<T>) { unimplemented!() }
    #[verifier::external_body] fn size_hint(&self) -> (r: (usize, Option<usize>)) { unimplemented!() }
    #[verifier::external_body] fn collect<B: FromIterator<T>>(self) -> (r: B) { unimplemented!() }
}
impl<'s, T: Copy> IntoIterator for VerifCopied<'s, T> {
    type Item = T;
    type IntoIter = VerifCopiedIter<'s, T>;
    open spec fn elems(&self) -> Seq<T> { self.src() }
    #[verifier::external_body] fn into_iter(self) -> (r: VerifCopiedIter<'s, T>) { unimplemented!() }
}
#[verifier::external_body]
pub fn verif_copied<'s, T: Copy>(s: &'s [T]) -> (r: VerifCopied<'s, T>) ensures r.src() == s@ { unimplemented!() }

// ---- the writer / value traits (metrique-writer-core) with the contract that defines "what is reported" -----------
pub trait ValueWriter: Sized {
    spec fn usable(self) -> bool;
    spec fn got(self, c: VCall) -> bool;
    fn string(self, value: &str)
        requires self.usable(),
        ensures self.got(VCall::String(value@));
    fn metric<'a, VerifI0: IntoIterator<Item = Observation>, VerifI1: IntoIterator<Item = (&'a str, &'a str)>>(self, distribution: VerifI0, unit: Unit, dimensions: VerifI1, flags: MetricFlags<'_>)
        requires self.usable(),
        // (stated up to extensional equality of the two sequences, so that any way of building them is accepted)
        ensures exists|d: Seq<Observation>, m: Seq<(Seq<char>, Seq<char>)>| self.got(#[trigger] mk_metric(d, unit, m, flag_id(flags)))
                    && d =~= distribution.elems() && m =~= dims_view(dimensions.elems());
    fn error(self, error: ValidationError)
        requires self.usable(),
        ensures self.got(VCall::Error(error));
}
pub trait Value {
    // a value makes exactly one call on the writer it is given
    spec fn call(&self) -> VCall;
    fn write<VerifI0: ValueWriter>(&self, writer: VerifI0)
        requires writer.usable(),
        ensures writer.got(self.call());
}
// the object-safe partners (declared in boxed.rs; restated here with contracts)
pub trait DynValueWriter {
    spec fn usable(&self) -> bool;
    spec fn got(&self, c: VCall) -> bool;
    fn string(&mut self, value: &str)
        requires old(self).usable(),
        ensures old(self).got(VCall::String(value@));
    fn metric<'a>(&mut self, distribution: &[Observation], unit: Unit, dimensions: &[(&'a str, &'a str)], flags: MetricFlags<'_>)
        requires old(self).usable(),
        ensures exists|d: Seq<Observation>, m: Seq<(Seq<char>, Seq<char>)>| old(self).got(#[trigger] mk_metric(d, unit, m, flag_id(flags)))
                    && d =~= distribution@ && m =~= dims_view(dimensions@);
    fn error(&mut self, error: ValidationError)
        requires old(self).usable(),
        ensures old(self).got(VCall::Error(error));
}
pub trait DynValue {
    spec fn call(&self) -> VCall;
    fn write(&self, writer: &mut dyn DynValueWriter)
        requires old(writer).usable(),
        ensures old(writer).got(self.call());
}

pub trait EntryWriter<'a> {
    spec fn log(&self) -> Seq<Item>;
    fn timestamp(&mut self, timestamp: SystemTime)
        ensures final(self).log() == old(self).log().push(Item::Timestamp(timestamp));
    fn value<VerifI0: Into<Cow<'a, str>>, VerifI1: Value + ?Sized>(&mut self, name: VerifI0, value: &VerifI1)
        ensures final(self).log() == old(self).log().push(Item::Value(cow_text(name.into_spec()), value.call()));
    fn config(&mut self, config: &'a dyn EntryConfig)
        ensures final(self).log() == old(self).log().push(Item::Config(config_id(config)));
}
pub trait DynEntryWriter<'a> {
    spec fn dlog(&self) -> Seq<Item>;
    fn timestamp(&mut self, timestamp: SystemTime)
        ensures final(self).dlog() == old(self).dlog().push(Item::Timestamp(timestamp));
    fn value(&mut self, name: Cow<'a, str>, value: &dyn DynValue)
        ensures final(self).dlog() == old(self).dlog().push(Item::Value(cow_text(name), value.call()));
    fn config(&mut self, config: &'a dyn EntryConfig)
        ensures final(self).dlog() == old(self).dlog().push(Item::Config(config_id(config)));
}
// a Cow<str> converts into itself
impl<'a> Into<Cow<'a, str>> for Cow<'a, str> {
    open spec fn into_spec(self) -> Cow<'a, str> { self }
    fn into(self) -> (r: Cow<'a, str>) { self }
}

// ---- entries ------------------------------------------------------------------------------------------------------
pub type GroupElem = (Cow<'static, str>, Cow<'static, str>);
impl<T, const N: usize> IntoIterator for SmallVec<[T; N]> {
    type Item = T;
    type IntoIter = VerifSvIter<T, N>;
    open spec fn elems(&self) -> Seq<T> { self.content() }
    #[verifier::external_body] fn into_iter(self) -> (r: VerifSvIter<T, N>) { unimplemented!() }
}
#[verifier::external_body]
#[verifier::reject_recursive_types(T)]
pub struct VerifSvIter<T, const N: usize> { _p: core::marker::PhantomData<T> }
impl<T, const N: usize> VerifSvIter<T, N> { pub uninterp spec fn left(&self) -> Seq<T>; }
impl<T, const N: usize> Iterator for VerifSvIter<T, N> {
    type Item = T;
    open spec fn rest(&self) -> Seq<T> { self.left() }
    #[verifier::external_body] fn next(&mut self) -> (r: Option<T>) { unimplemented!() }
    #[verifier::external_body] fn size_hint(&self) -> (r: (usize, Option<usize>)) { unimplemented!() }
    #[verifier::external_body] fn collect<B: FromIterator<T>>(self) -> (r: B) { unimplemented!() }
}
pub trait Entry {
    // R23: `fn sample_group(&self) -> impl Iterator<Item = ..>` is the language's sugar for an associated iterator type
    type SgIter: Iterator<Item = GroupElem>;
    spec fn items(&self) -> Seq<Item>;
    spec fn groups(&self) -> Seq<GroupElem>;
    fn write<'a, VerifI0: EntryWriter<'a>>(&'a self, writer: &mut VerifI0)
        ensures final(writer).log() == old(writer).log() + self.items();
    fn sample_group(&self) -> (r: Self::SgIter)
        ensures r.rest() == self.groups();
}
pub trait DynEntry {
    spec fn dyn_items(&self) -> Seq<Item>;
    spec fn dyn_groups(&self) -> Seq<GroupElem>;
    fn write<'a>(&'a self, writer: &mut dyn DynEntryWriter<'a>)
        ensures final(writer).dlog() == old(writer).dlog() + self.dyn_items();
    fn sample_group(&self) -> (r: SmallVec<[(Cow<'static, str>, Cow<'static, str>); 2]>)
        ensures r.content() == self.dyn_groups();
}
'''

ITEMS = [
    dict(kind="struct", file=BOXED, name="ValueToDyn", attrs=["#[verifier::reject_recursive_types(V)]"]),
    dict(kind="struct", file=BOXED, name="ValueFromDyn"),
    dict(kind="struct", file=BOXED, name="EntryWriterToDyn", attrs=["#[verifier::reject_recursive_types(W)]"]),
    dict(kind="struct", file=BOXED, name="EntryWriterFromDyn"),
    dict(kind="struct", file=BOXED, name="ValueWriterToDyn", attrs=["#[verifier::reject_recursive_types(W)]"]),
    dict(kind="struct", file=BOXED, name="ValueWriterFromDyn"),
    dict(kind="fn", file=BOXED, impl=r"^impl < W : ValueWriter > DynValueWriter for ValueWriterToDyn < W >$", name="string", label="ValueWriterToDyn::string",
         impl_extra="    // the bridge holds the by-value writer until the one call that consumes it\n"
                    "    open spec fn usable(&self) -> bool { self.0 is Some && self.0->0.usable() }\n"
                    "    open spec fn got(&self, c: VCall) -> bool { self.0 is Some && self.0->0.got(c) }\n"),
    dict(kind="fn", file=BOXED, impl=r"^impl < W : ValueWriter > DynValueWriter for ValueWriterToDyn < W >$", name="metric", label="ValueWriterToDyn::metric",
         rules={"b1_iter_copied": 2}, extra_rewrites=[b1_iter_copied]),
    dict(kind="fn", file=BOXED, impl=r"^impl < W : ValueWriter > DynValueWriter for ValueWriterToDyn < W >$", name="error", label="ValueWriterToDyn::error"),
    dict(kind="fn", file=BOXED, impl=r"^impl ValueWriter for ValueWriterFromDyn < '_ >$", name="string", label="ValueWriterFromDyn::string",
         impl_extra="    open spec fn usable(self) -> bool { (*self.0).usable() }\n"
                    "    open spec fn got(self, c: VCall) -> bool { (*self.0).got(c) }\n"),
    dict(kind="fn", file=BOXED, impl=r"^impl ValueWriter for ValueWriterFromDyn < '_ >$", name="metric", label="ValueWriterFromDyn::metric",
         impl_trait_args=True, rules={"R14": 2}),
    dict(kind="fn", file=BOXED, impl=r"^impl ValueWriter for ValueWriterFromDyn < '_ >$", name="error", label="ValueWriterFromDyn::error"),
    # ---- values
    dict(kind="fn", file=BOXED, impl=r"^impl < V : Value \+ \? Sized > DynValue for ValueToDyn < '_ , V >$", name="write", label="ValueToDyn::write",
         impl_extra="    open spec fn call(&self) -> VCall { self.0.call() }\n"),
    # ValueFromDyn::write is NOT verified: its body coerces `&mut ValueWriterToDyn<W>` to `&mut dyn DynValueWriter`, an unsizing
    # operation this Verus does not support; its contract (forwards the dyn value's one call) is assumed here
    dict(kind="raw", label="ValueFromDyn::write (assumed)", text="""
impl Value for ValueFromDyn<'_> {
    open spec fn call(&self) -> VCall { self.0.call() }
    #[verifier::external_body]
    fn write<VerifI0: ValueWriter>(&self, writer: VerifI0) { unimplemented!() }
}
"""),
    # ---- entry writers
    dict(kind="fn", file=BOXED, impl=r"^impl < 'a , W : EntryWriter < 'a >> DynEntryWriter < 'a > for EntryWriterToDyn < W >$", name="timestamp", label="EntryWriterToDyn::timestamp",
         impl_extra="    open spec fn dlog(&self) -> Seq<Item> { self.0.log() }\n"),
    dict(kind="fn", file=BOXED, impl=r"^impl < 'a , W : EntryWriter < 'a >> DynEntryWriter < 'a > for EntryWriterToDyn < W >$", name="value", label="EntryWriterToDyn::value"),
    dict(kind="fn", file=BOXED, impl=r"^impl < 'a , W : EntryWriter < 'a >> DynEntryWriter < 'a > for EntryWriterToDyn < W >$", name="config", label="EntryWriterToDyn::config"),
    dict(kind="fn", file=BOXED, impl=r"^impl < 'a > EntryWriter < 'a > for EntryWriterFromDyn < 'a , '_ >$", name="timestamp", label="EntryWriterFromDyn::timestamp",
         impl_extra="    open spec fn log(&self) -> Seq<Item> { (*self.0).dlog() }\n"),
    dict(kind="fn", file=BOXED, impl=r"^impl < 'a > EntryWriter < 'a > for EntryWriterFromDyn < 'a , '_ >$", name="value", label="EntryWriterFromDyn::value", impl_trait_args=True, rules={"R14": 2}),
    dict(kind="fn", file=BOXED, impl=r"^impl < 'a > EntryWriter < 'a > for EntryWriterFromDyn < 'a , '_ >$", name="config", label="EntryWriterFromDyn::config"),
    # ---- entries
    dict(kind="fn", file=BOXED, impl=r"^impl < E : Entry \+ Send \+ 'static > DynEntry for E$", name="sample_group", label="<E as DynEntry>::sample_group",
         impl_extra="    // a boxed entry reports exactly what the entry itself reports\n"
                    "    open spec fn dyn_items(&self) -> Seq<Item> { self.items() }\n"
                    "    open spec fn dyn_groups(&self) -> Seq<GroupElem> { self.groups() }\n"
                    "    // <E as DynEntry>::write (`Entry::write(self, &mut EntryWriterFromDyn(writer))`) is NOT verified: relating the final value of\n"
                    "    // `writer` to the `&mut` stored inside the temporary adapter needs a frame condition (the callee does not replace the\n"
                    "    // adapter's reference) that a generic `impl EntryWriter` contract cannot state; assumed\n"
                    "    #[verifier::external_body]\n"
                    "    fn write<'a>(&'a self, writer: &mut dyn DynEntryWriter<'a>) { unimplemented!() }\n"),
    dict(kind="struct", file=BOXED, name="BoxEntry"),
    dict(kind="fn", file=BOXED, impl=r"^impl Entry for BoxEntry$", name="sample_group", label="BoxEntry::sample_group", ret_iter="VerifSvIter<GroupElem, 2>", rules={"R23": 1},
         impl_extra="    type SgIter = VerifSvIter<GroupElem, 2>;\n"
                    "    open spec fn items(&self) -> Seq<Item> { self.0.dyn_items() }\n"
                    "    open spec fn groups(&self) -> Seq<GroupElem> { self.0.dyn_groups() }\n"
                    "    // BoxEntry::write is NOT verified (`&mut EntryWriterToDyn(writer)` is coerced to `&mut dyn DynEntryWriter`: unsizing of a\n"
                    "    // mutable reference is not supported by this Verus); assumed with the contract every entry has\n"
                    "    #[verifier::external_body]\n"
                    "    fn write<'a, VerifI0: EntryWriter<'a>>(&'a self, writer: &mut VerifI0) { unimplemented!() }\n"),
]

POSTLUDE = ""
CANARY = dict(fn="ValueWriterFromDyn::string", field="impl_extra", replace=("{ (*self.0).got(c) }", "{ !(*self.0).got(c) }"))
