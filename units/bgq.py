"""Unit `bgq` (C01, C05, C09, C16): the sequential core of the background queue, extracted from
metrique-writer/src/sink/background.rs: Inner::push, Receiver::{consume, report_validation_error,
drain_until_deadline, flush_stream, shut_down}, BackgroundQueueJoinHandle::{drop, forget},
BackgroundQueue::append.

The stream is any implementation of EntryIoStream, with a ghost log `ops()` of what reached it
(assumed meaning of "hand an entry to the stream").  Contracts are written over that log."""
from vf.extract import _toks, Undecided

NAME = "bgq"
PROPERTIES = ["C01", "C05", "C09", "C16"]
BG = "metrique-writer/src/sink/background.rs"


def r10_now_ge(text):
    """Instant::now() >= IDENT  ->  verif_now_ge(&IDENT): the clock is an arbitrary oracle."""
    hits = 0
    while True:
        toks, match = _toks(text)
        for i, t in enumerate(toks):
            if t.text == "Instant" and [x.text for x in toks[i:i + 6]] == ["Instant", "::", "now", "(", ")", ">="] \
                    and toks[i + 6].kind == "ident":
                text = text[:t.start] + "verif_now_ge(&%s)" % toks[i + 6].text + text[toks[i + 6].end:]
                hits += 1
                break
        else:
            return text, hits


def r13_now_plus(text):
    """Instant::now() + PATH  ->  verif_now_plus(PATH)   (PATH = ident(.ident)*)"""
    hits = 0
    while True:
        toks, match = _toks(text)
        for i, t in enumerate(toks):
            if t.text == "Instant" and [x.text for x in toks[i:i + 6]] == ["Instant", "::", "now", "(", ")", "+"]:
                e = i + 6
                while e < len(toks) and (toks[e].kind == "ident" or toks[e].text == "."):
                    e += 1
                path = text[toks[i + 6].start:toks[e - 1].end]
                text = text[:t.start] + "verif_now_plus(%s)" % path + text[toks[e - 1].end:]
                hits += 1
                break
        else:
            return text, hits


def r11_dispatch_none(text):
    """tracing::Dispatch::default().is::<tracing::subscriber::NoSubscriber>()  ->  verif_no_subscriber()"""
    pat = "tracing :: Dispatch :: default ( ) . is :: < tracing :: subscriber :: NoSubscriber > ( )".split()
    hits = 0
    while True:
        toks, match = _toks(text)
        for i in range(len(toks) - len(pat) + 1):
            if [x.text for x in toks[i:i + len(pat)]] == pat:
                text = text[:toks[i].start] + "verif_no_subscriber()" + text[toks[i + len(pat) - 1].end:]
                hits += 1
                break
        else:
            return text, hits


def r_async_flush_wait(text):
    """FlushWait::from_future(async move { let _ = receiver.await; })  ->  verif_flush_wait(receiver)   (async blocks are outside this Verus)"""
    import re
    pat = r"FlushWait::from_future\(async move \{\s*let _ = receiver\.await;\s*\}\)"
    n = len(re.findall(pat, text))
    return re.sub(pat, "verif_flush_wait(receiver)", text), n


def r12_join_unwrap(text):
    """handle.join().unwrap()  ->  handle.join_unwrap()  (stand-in JoinHandle; panics propagate either way)"""
    hits = text.count("handle.join().unwrap()")
    return text.replace("handle.join().unwrap()", "handle.join_unwrap()"), hits


PRELUDE = r'''
use std::sync::Arc;

// ================= assumed: what it means to hand something to a stream ==========================
pub enum Op { Next(int), Flush, Report }
pub trait Entry { spec fn id(&self) -> int; }
pub struct ValidationError { pub v: u8 }
pub struct IoError { pub v: u8 }
// std::io::ErrorKind is the real type (comparisons on it are unspecified: any kind is possible)
#[verifier::external_type_specification]
pub struct ExErrorKind(std::io::ErrorKind);
pub assume_specification[ <std::io::ErrorKind as PartialEq>::eq ](a: &std::io::ErrorKind, b: &std::io::ErrorKind) -> (r: bool);
impl IoError {
    #[verifier::external_body]
    pub fn kind(&self) -> std::io::ErrorKind { unimplemented!() }
}
pub mod io { pub use std::io::ErrorKind; pub type Error = super::IoError; }
pub enum IoStreamError { Validation(ValidationError), Io(IoError) }

pub trait EntryIoStream {
    spec fn ops(&self) -> Seq<Op>;
    // any result is possible; the entry has been handed to the stream exactly once
    fn next<E: Entry>(&mut self, entry: &E) -> (r: Result<(), IoStreamError>)
        ensures final(self).ops() == old(self).ops().push(Op::Next(entry.id()));
    fn flush(&mut self) -> (r: Result<(), IoError>)
        ensures final(self).ops() == old(self).ops().push(Op::Flush);
    // EntryIoStreamExt::report_error = next(&MetriqueValidationError::new(msg)): the queue's in-band error entry
    fn report_error(&mut self, message: &str) -> (r: Result<(), IoStreamError>)
        ensures final(self).ops() == old(self).ops().push(Op::Report);
}
// dropping the stream closes it; ownership makes "not used afterwards" a type-system fact
pub fn drop<T>(t: T) {}

// ================= assumed: crossbeam ArrayQueue / Parker, std thread/atomic/time ================
#[verifier::external_body]
#[verifier::reject_recursive_types(E)]
pub struct ArrayQueue<E> { p: core::marker::PhantomData<E> }
impl<E> ArrayQueue<E> {
    // force_push never blocks and never fails; it returns the displaced oldest element iff the
    // queue was full (crossbeam contract; FIFO order of the rest is crossbeam's)
    #[verifier::external_body]
    pub fn force_push(&self, value: E) -> (r: Option<E>)
        ensures pushed(*self, ghost_id(value), r is Some),
    { unimplemented!() }
    // push fails (handing the value back) when the queue is full
    #[verifier::external_body]
    pub fn push(&self, value: E) -> (r: Result<(), E>)
        ensures r is Ok ==> pushed(*self, ghost_id(value), false), r is Err ==> ghost_id(r->Err_0) == ghost_id(value),
    { unimplemented!() }
    #[verifier::external_body]
    pub fn pop(&self) -> (r: Option<E>) { unimplemented!() }
    #[verifier::external_body]
    pub fn is_full(&self) -> bool { unimplemented!() }
    #[verifier::external_body]
    pub fn is_empty(&self) -> bool { unimplemented!() }
    #[verifier::external_body]
    pub fn len(&self) -> usize { unimplemented!() }
    #[verifier::external_body]
    pub fn capacity(&self) -> usize { unimplemented!() }
}
#[verifier::external_body] pub struct Unparker { p: u8 }
#[verifier::external_body] pub struct Parker { p: u8 }
#[verifier::external_body] pub struct AtomicBool { p: u8 }
#[verifier::external_body] #[derive(Clone, Copy)] pub struct Instant { p: u8 }
#[verifier::external_body] #[derive(Clone, Copy)] pub struct Duration { p: u8 }
pub mod thread {
    use vstd::prelude::*;
    // std::thread::panicking(): an arbitrary answer (a handle may be dropped during unwinding)
    #[verifier::external_body]
    pub fn panicking() -> bool { unimplemented!() }
    #[verifier::external_body]
    #[verifier::reject_recursive_types(T)]
    pub struct JoinHandle<T> { p: core::marker::PhantomData<T> }
    impl<T> JoinHandle<T> {
        // join().unwrap(): blocks until the writer thread has returned from run()
        #[verifier::external_body]
        pub fn join_unwrap(self) ensures super::joined() { unimplemented!() }
        // whether the thread has finished right now: an arbitrary answer (it says nothing about `joined`, which is the handle being consumed by join)
        #[verifier::external_body]
        pub fn is_finished(&self) -> bool { unimplemented!() }
    }
    // sleeping / yielding have no effect on anything the contracts talk about
    #[verifier::external_body] pub fn sleep(d: super::Duration) { unimplemented!() }
    #[verifier::external_body] pub fn yield_now() { unimplemented!() }
}
impl Duration {
    #[verifier::external_body] pub fn from_millis(ms: u64) -> Duration { unimplemented!() }
    #[verifier::external_body] pub fn from_secs(s: u64) -> Duration { unimplemented!() }
}
pub mod tokio { pub mod sync { pub mod oneshot {
    use vstd::prelude::*;
    #[verifier::external_body]
    #[verifier::reject_recursive_types(T)]
    pub struct Sender<T> { _p: core::marker::PhantomData<T> }
    #[verifier::external_body]
    #[verifier::reject_recursive_types(T)]
    pub struct Receiver<T> { _p: core::marker::PhantomData<T> }
    // the two halves of one channel: the receiver's future completes when the sender is used or dropped
    pub uninterp spec fn halves<T>(tx: Sender<T>, rx: Receiver<T>) -> bool;
    #[verifier::external_body]
    pub fn channel<T>() -> (r: (Sender<T>, Receiver<T>)) ensures halves(r.0, r.1) { unimplemented!() }
}}}
#[verifier::external_type_specification]
#[verifier::external_body]
#[verifier::reject_recursive_types(T)]
pub struct ExSender<T>(std::sync::mpsc::Sender<T>);
#[verifier::external_type_specification]
#[verifier::external_body]
#[verifier::reject_recursive_types(T)]
pub struct ExSyncSender<T>(std::sync::mpsc::SyncSender<T>);
#[verifier::external_type_specification]
#[verifier::external_body]
#[verifier::reject_recursive_types(T)]
pub struct ExSendError<T>(std::sync::mpsc::SendError<T>);
#[verifier::external_type_specification]
#[verifier::external_body]
#[verifier::reject_recursive_types(T)]
pub struct ExTrySendError<T>(std::sync::mpsc::TrySendError<T>);
// the flush-signal queue: `queued(tx, sig)` = the signal is now in the writer's queue; `writer_gone(tx)` = the receiving end was
// dropped (the writer has shut down) - the only reason an unbounded send fails; the signal is then dropped, which completes its future
pub uninterp spec fn queued<S, T>(tx: &S, t: T) -> bool;
pub uninterp spec fn writer_gone<S>(tx: &S) -> bool;
pub assume_specification<T>[ std::sync::mpsc::Sender::<T>::send ](tx: &std::sync::mpsc::Sender<T>, t: T) -> (r: Result<(), std::sync::mpsc::SendError<T>>)
    ensures r is Ok ==> queued(tx, t), r is Err ==> writer_gone(tx);
// a bounded channel can also refuse because it is full: nothing is known then
pub assume_specification<T>[ std::sync::mpsc::SyncSender::<T>::try_send ](tx: &std::sync::mpsc::SyncSender<T>, t: T) -> (r: Result<(), std::sync::mpsc::TrySendError<T>>);
// R-async: FlushWait::from_future(async move { let _ = receiver.await; }) - a future that completes when the paired sender is used or dropped
#[verifier::external_body]
pub struct FlushWait { _p: u8 }
pub uninterp spec fn waits_on(w: FlushWait, rx: tokio::sync::oneshot::Receiver<()>) -> bool;
#[verifier::external_body]
pub fn verif_flush_wait(receiver: tokio::sync::oneshot::Receiver<()>) -> (r: FlushWait) ensures waits_on(r, receiver) { unimplemented!() }
pub enum Ordering { Relaxed }

// Effects of `&self` methods of the dependencies are witnessed by uninterpreted predicates that only the
// dependency's own postcondition establishes: a function under contract can only prove `pushed(..)`,
// `unparked(..)`, `signalled(..)`, `joined(..)`, `counted(..)` by actually making the call.
pub uninterp spec fn ghost_id<E>(e: E) -> int;
pub uninterp spec fn pushed<E>(q: ArrayQueue<E>, id: int, displaced: bool) -> bool;
pub uninterp spec fn unparked(u: Unparker) -> bool;
pub uninterp spec fn signalled(b: AtomicBool, v: bool) -> bool;
pub uninterp spec fn counted(metric: &str, value: u64) -> bool;
pub uninterp spec fn joined() -> bool;

impl AtomicBool {
    #[verifier::external_body]
    pub fn store(&self, v: bool, o: Ordering) ensures signalled(*self, v) { unimplemented!() }
}
impl Unparker {
    #[verifier::external_body]
    pub fn unpark(&self) ensures unparked(*self) { unimplemented!() }
}
impl Instant {
    #[verifier::external_body]
    pub fn now() -> Instant { unimplemented!() }
}
// Instant::now() + d  (R13): some later instant; overflow panics out of scope
#[verifier::external_body]
pub fn verif_now_plus(d: Duration) -> Instant { unimplemented!() }

#[verifier::external_body]
pub fn verif_now_ge(deadline: &Instant) -> bool { unimplemented!() }   // the clock: arbitrary
#[verifier::external_body]
pub fn verif_no_subscriber() -> bool { unimplemented!() }               // tracing dispatcher: arbitrary
#[verifier::external_body]
pub fn verif_nondet_bool() -> bool { unimplemented!() }                 // rate limiter: may or may not fire
// statistic counters are treated as mathematical integers (they cannot reach 2^64 in practice)
#[verifier::external_body]
pub fn verif_math_inc_u64(x: u64) -> (r: u64) ensures r == x + 1 { unimplemented!() }
#[verifier::external_body]
pub fn verif_math_inc_usize(x: usize) -> (r: usize) ensures r == x + 1 { unimplemented!() }

pub assume_specification<T: std::default::Default>[ std::mem::take ](x: &mut T) -> (r: T)
    ensures r == *old(x);
// metric recorder: ghost count of overflow increments (C09)
pub trait MetricRecorder {
    fn increment_counter(&self, metric: &'static str, sink: &str, value: u64)
        ensures counted(metric, value);
    fn record_histogram(&self, metric: &'static str, sink: &str, value: u32);
}

// ================= projections of the stream log ==================================================
pub open spec fn nexts(o: Seq<Op>) -> Seq<int> decreases o.len() {
    if o.len() == 0 { Seq::<int>::empty() }
    else { match o.last() { Op::Next(i) => nexts(o.drop_last()).push(i), _ => nexts(o.drop_last()) } }
}
pub open spec fn flushes(o: Seq<Op>) -> nat decreases o.len() {
    if o.len() == 0 { 0 }
    else { match o.last() { Op::Flush => flushes(o.drop_last()) + 1, _ => flushes(o.drop_last()) } }
}
// the effect of consuming one entry: Next(id), optionally followed by the in-band error report
pub open spec fn consumed_one(before: Seq<Op>, after: Seq<Op>, id: int) -> bool {
    after == before.push(Op::Next(id)) || after == before.push(Op::Next(id)).push(Op::Report)
}
pub proof fn lemma_consumed_one(before: Seq<Op>, after: Seq<Op>, id: int)
    requires consumed_one(before, after, id),
    ensures nexts(after) == nexts(before).push(id), flushes(after) == flushes(before), before.is_prefix_of(after),
{
    let a1 = before.push(Op::Next(id));
    assert(a1.drop_last() =~= before);
    assert(nexts(a1) == nexts(before).push(id));
    assert(flushes(a1) == flushes(before));
    if after != a1 {
        let a2 = a1.push(Op::Report);
        assert(a2.drop_last() =~= a1);
        assert(nexts(a2) == nexts(a1));
        assert(flushes(a2) == flushes(a1));
    }
}
pub proof fn lemma_flush_one(before: Seq<Op>)
    ensures nexts(before.push(Op::Flush)) == nexts(before), flushes(before.push(Op::Flush)) == flushes(before) + 1,
{
    assert(before.push(Op::Flush).drop_last() =~= before);
}
'''

STATS = {"self.metrics_emitted": "verif_math_inc_u64", "self.metric_validation_errors": "verif_math_inc_u64", "self.metric_io_errors": "verif_math_inc_u64", "count": "verif_math_inc_usize"}

ITEMS = [
    dict(kind="struct", file=BG, name="DrainResult", keep_derive=True, structural=True),
    dict(kind="struct", file=BG, name="FlushSignal"),
    dict(kind="struct", file=BG, name="Inner", attrs=["#[verifier::reject_recursive_types(E)]"]),
    dict(kind="struct", file=BG, name="Receiver", attrs=["#[verifier::reject_recursive_types(S)]", "#[verifier::reject_recursive_types(E)]"]),
    dict(kind="struct", file=BG, name="BackgroundQueueJoinHandle"),
    dict(kind="fn", file=BG, impl=r"^impl < S : EntryIoStream , E : Entry > Receiver < S , E >$", name="report_validation_error",
         rules={"R1": 1, "r11_dispatch_none": 1, "R9": 2}, math_inc=STATS, extra_rewrites=[r11_dispatch_none],
         ensures="""
            // at most the in-band report reaches the stream, nothing else
            final(self).stream.ops() == old(self).stream.ops() || final(self).stream.ops() == old(self).stream.ops().push(Op::Report),
            final(self).inner == old(self).inner,
         """),
    dict(kind="fn", file=BG, impl=r"^impl < S : EntryIoStream , E : Entry > Receiver < S , E >$", name="consume",
         rules={"R1": 1, "R2": 2, "R9": 3}, math_inc=STATS,
         ensures="""
            // C01/C16: whatever the stream answers (Ok / Validation / Io), the entry was handed to it exactly
            // once, nothing is retried or skipped, and the only other thing that may follow is the error report
            consumed_one(old(self).stream.ops(), final(self).stream.ops(), entry.id()),   // OBL consume_exactly_once
            final(self).inner == old(self).inner,
         """),
    dict(kind="fn", file=BG, impl=r"^impl < S : EntryIoStream , E : Entry > Receiver < S , E >$", name="drain_until_deadline", ret="r",
         attrs=["#[verifier::exec_allows_no_decreases_clause]"],
         rules={"R9": 1, "r10_now_ge": 1}, math_inc=STATS, extra_rewrites=[r10_now_ge],
         ensures="""
            // every popped entry has been consumed before returning (none is dropped on the deadline path),
            // in pop order, exactly once; no flush happens here
            exists|popped: Seq<int>| #[trigger] nexts(final(self).stream.ops()) == nexts(old(self).stream.ops()) + popped
                && popped.len() == r.1,                                               // OBL drain_consumes_every_popped_entry
            flushes(final(self).stream.ops()) == flushes(old(self).stream.ops()),
            old(self).stream.ops().is_prefix_of(final(self).stream.ops()),
            // the deadline is only honoured on a multiple of 32 consumed entries
            r.0 == DrainResult::HitDeadline ==> r.1 > 0 && r.1 % 32 == 0,
            final(self).inner == old(self).inner,
         """,
         loops={1: """
            invariant
                nexts(self.stream.ops()) == nexts(old(self).stream.ops()) + verif_popped,
                verif_popped.len() == count,
                flushes(self.stream.ops()) == flushes(old(self).stream.ops()),
                old(self).stream.ops().is_prefix_of(self.stream.ops()),
                self.inner == old(self).inner,
         """},
         proofs=[
             ("before", "let mut count", "let ghost mut verif_popped: Seq<int> = Seq::empty();"),
             ("before", "self . consume ( entry ) ;", "let ghost verif_before = self.stream.ops(); let ghost verif_id = entry.id();"),
             ("after", "self . consume ( entry ) ;",
              """proof {
                    lemma_consumed_one(verif_before, self.stream.ops(), verif_id);
                    assert((nexts(old(self).stream.ops()) + verif_popped).push(verif_id) =~= nexts(old(self).stream.ops()) + verif_popped.push(verif_id));
                    verif_popped = verif_popped.push(verif_id);
                 }"""),
         ]),
    dict(kind="fn", file=BG, impl=r"^impl < S : EntryIoStream , E : Entry > Receiver < S , E >$", name="flush_stream",
         rules={"R1": 1, "R2": 1, "R9": 1}, math_inc=STATS,
         requires="true,",
         ensures="""
            final(self).stream.ops() == old(self).stream.ops().push(Op::Flush),   // exactly one flush, whatever it returns
            flushes(final(self).stream.ops()) == flushes(old(self).stream.ops()) + 1,
            nexts(final(self).stream.ops()) == nexts(old(self).stream.ops()),
            final(self).inner == old(self).inner,
         """,
         proofs=[("end", "", "proof { lemma_flush_one(old(self).stream.ops()); }")]),
    dict(kind="fn", file=BG, impl=r"^impl < S : EntryIoStream , E : Entry > Receiver < S , E >$", name="shut_down",
         rules={"R1": 2, "R7": 1, "r13_now_plus": 1}, extra_rewrites=[r13_now_plus],
         proofs=[
             ("before", "let deadline", "let ghost verif_ops0 = __s.stream.ops();"),
             # C05: at the moment the stream is closed (dropped) everything that was popped has been handed to it,
             # and the last thing it saw is exactly one flush issued after the drain
             ("before", "drop ( __s . stream ) ;",
              """proof {
                    assert(verif_ops0.is_prefix_of(__s.stream.ops()));                       // OBL shutdown_only_appends
                    assert(__s.stream.ops().last() == Op::Flush);                            // OBL shutdown_flushes_last
                    assert(flushes(__s.stream.ops()) == flushes(verif_ops0) + 1);            // OBL shutdown_flushes_once
                 }"""),
         ]),
    dict(kind="fn", file=BG, impl=r"^impl < E > Inner < E >$", name="flush_async", ret="r", label="Inner::flush_async",
         rules={"r_async_flush_wait": 1}, extra_rewrites=[r_async_flush_wait],
         ensures="""
            // C04: a flush request hands the writer a signal whose completion is exactly what the returned future waits for - unless the
            // writer has already shut down (then the signal is dropped and the future completes immediately) - and wakes the writer
            exists|tx: tokio::sync::oneshot::Sender<()>, rx: tokio::sync::oneshot::Receiver<()>| #[trigger] tokio::sync::oneshot::halves(tx, rx) && waits_on(r, rx)
                && (queued(&self.flush_queue_sender, FlushSignal { channel: tx }) || writer_gone(&self.flush_queue_sender)),   // OBL flush_request_reaches_the_writer
            unparked(self.unparker),                                                                                                       // OBL flush_request_wakes_the_writer
         """),
    dict(kind="fn", file=BG, impl=r"^impl < E > Inner < E >$", name="push",
         rules={"R1": 1, "R2": 1}, n_loops=0,
         ensures="""
            // C09/C01: the entry is handed to the queue (exactly once: E is not Clone, so ownership forbids twice)
            // whether or not the queue is full - no loop, no lock, no early return;
            pushed(self.queue, ghost_id(entry), true) || pushed(self.queue, ghost_id(entry), false),   // OBL push_hands_entry_to_queue
            // a displaced (lost) entry is reported to the recorder as one overflow
            (pushed(self.queue, ghost_id(entry), true) && !pushed(self.queue, ghost_id(entry), false) && self.recorder is Some)
                ==> counted("metrique_queue_overflows", 1),                                             // OBL overflow_counted
            // and the writer thread is woken
            unparked(self.unparker),                                                                    // OBL push_unparks
         """),
    dict(kind="struct", file=BG, name="BackgroundQueue", attrs=["#[verifier::reject_recursive_types(T)]"]),
    dict(kind="fn", file=BG, impl=r"^impl < T : Entry \+ Send \+ 'static > EntrySink < T > for BackgroundQueue < T >$", name="append", label="BackgroundQueue::append",
         impl_header_override="impl<T> BackgroundQueue<T>", sig_replace=[("fn append", "pub fn append")],
         ensures="""
            // C01/C09: an append on any handle is one push onto the shared queue
            pushed(self.0.queue, ghost_id(entry), true) || pushed(self.0.queue, ghost_id(entry), false),   // OBL append_is_one_push
            unparked(self.0.unparker),
         """),
    dict(kind="fn", file=BG, impl=r"^impl Drop for BackgroundQueueJoinHandle$", name="drop",
         rules={"R1": 2, "r12_join_unwrap": 1}, extra_rewrites=[r12_join_unwrap, r10_now_ge, r13_now_plus], unpinned=["r10_now_ge", "r13_now_plus"],
         impl_header_override="impl BackgroundQueueJoinHandle",
         ensures="""
            // C05: a live handle signals shutdown, wakes the writer and waits for it; a forgotten one does nothing
            old(self).handle is Some ==> signalled(*old(self).shutdown_signal, true) && unparked(old(self).unparker) && joined(),
            final(self).handle is None,
         """,
         proofs=[
             ("before", "self . unparker . unpark ( ) ;", "proof { assert(signalled(*self.shutdown_signal, true)); /* OBL signal_before_unpark */ }"),
             ("before", "handle . join_unwrap ( ) ;", "proof { assert(signalled(*self.shutdown_signal, true) && unparked(self.unparker)); /* OBL signal_and_unpark_before_join */ }"),
         ]),
    dict(kind="fn", file=BG, impl=r"^impl BackgroundQueueJoinHandle$", name="forget",
         rules={"R7": 1},
         proofs=[("after", "__s . handle = None ;", "proof { assert(__s.handle is None); /* OBL forget_clears_handle */ }")]),
]

POSTLUDE = r'''
'''
CANARY = dict(fn="flush_stream", replace=("old(self).stream.ops().push(Op::Flush)", "old(self).stream.ops()"))
