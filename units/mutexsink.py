"""Unit `mutexsink` (C10): MutexSink (metrique-aggregation/src/sink/mutex.rs) - every entry handed to the mutex-shared sink is merged
into the inner sink (merge blocks on the lock; it never drops an entry), and close emits what the shared aggregate holds.
std::sync::Mutex is a stand-in: `lock()` returns a guard that dereferences to the protected value; `try_lock()` may fail."""

NAME = "mutexsink"
PROPERTIES = ["C10"]
M = "metrique-aggregation/src/sink/mutex.rs"

PRELUDE = r'''
use std::sync::Arc;
pub uninterp spec fn ghost_id<T>(t: T) -> int;
pub uninterp spec fn was_merged(entry: int) -> bool;
pub trait AggregateSink<T> {
    // the inner aggregation (KeyedAggregator::merge etc., verified in unit aggregator); here: the entry reached it
    fn merge(&mut self, entry: T) ensures was_merged(ghost_id(entry));
}
pub trait RootSink<T> { fn merge(&self, entry: T); }
pub trait CloseValue: Sized { type Closed; spec fn closed(self) -> Self::Closed; fn close(self) -> (r: Self::Closed) ensures r == self.closed(); }
#[verifier::external_body] #[verifier::reject_recursive_types(T)] pub struct Mutex<T> { _p: core::marker::PhantomData<T> }
#[verifier::external_body] #[verifier::reject_recursive_types(T)] pub struct MutexGuard<'a, T> { _p: &'a T }
#[verifier::external_body] pub struct PoisonError { _p: u8 }
#[verifier::external_body] pub struct TryLockError { _p: u8 }
impl core::fmt::Debug for PoisonError { #[verifier::external_body] fn fmt(&self, f: &mut core::fmt::Formatter<'_>) -> core::fmt::Result { unimplemented!() } }
impl<T> Mutex<T> {
    // the protected value as the locking thread finds it (one thread's view of shared state)
    pub uninterp spec fn held(&self) -> T;
    #[verifier::external_body] pub fn new(t: T) -> Mutex<T> { unimplemented!() }
    // blocks until the lock is free; an Err means a previous holder panicked (poisoning)
    #[verifier::external_body] pub fn lock(&self) -> (r: Result<MutexGuard<'_, T>, PoisonError>)
        ensures r is Ok,   // assumed: no earlier holder panicked (a poisoned lock makes `unwrap` panic: loud, not a silent drop)
                r->Ok_0@ == self.held()
    { unimplemented!() }
    // does not block: fails when another thread holds the lock
    #[verifier::external_body] pub fn try_lock(&self) -> (r: Result<MutexGuard<'_, T>, TryLockError>) ensures r is Ok ==> r->Ok_0@ == self.held() { unimplemented!() }
}
impl<'a, T> MutexGuard<'a, T> { pub uninterp spec fn view(&self) -> T; }
impl<'a, T> core::ops::Deref for MutexGuard<'a, T> {
    type Target = T;
    #[verifier::external_body] fn deref(&self) -> (r: &T) ensures *r == self@ { unimplemented!() }
}
impl<'a, T> core::ops::DerefMut for MutexGuard<'a, T> {
    #[verifier::external_body] fn deref_mut(&mut self) -> (r: &mut T) ensures *r == old(self)@, final(self)@ == *final(r) { unimplemented!() }
}
'''

ITEMS = [
    dict(kind="struct", file=M, name="MutexSink", attrs=["#[verifier::reject_recursive_types(Inner)]"]),
    dict(kind="fn", file=M, impl=r"^impl < T , Inner > RootSink < T > for MutexSink < Inner > where", name="merge", label="MutexSink::merge",
         ensures="""
            // C10: an entry merged through the shared sink reaches the inner aggregation - it is never dropped
            was_merged(ghost_id(entry)),                                // OBL mutex_sink_merges_every_entry
         """),
    dict(kind="fn", file=M, impl=r"^impl < Inner > CloseValue for MutexSink < Inner > where", name="close", ret="r", label="MutexSink::close",
         impl_extra="    type Closed = Inner::Closed;\n    open spec fn closed(self) -> Inner::Closed { self.inner.held().closed() }\n",
         ensures="""
            // C10: closing the shared sink emits what the shared aggregate holds at that moment (it waits for the lock; it never emits
            // a fresh, empty aggregate instead)
            r == self.inner.held().closed(),                                // OBL mutex_sink_close_emits_the_shared_aggregate
         """),
]
POSTLUDE = ""
CANARY = dict(fn="MutexSink::merge", replace=("was_merged(ghost_id(entry)),", "was_merged(ghost_id(entry)) && false,"))
