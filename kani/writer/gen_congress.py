"""Generator for the Kani group writer_congress_rates (C12): copies the REAL body of CongressSample::update_rates,
token for token, into a method of a stand-in owner whose `groups` field is an array-backed collection offering the three
methods the body uses on the hash map (retain, len, values_mut).  update_rates never looks at a key, so what is dropped is
exactly: the key type / hashing, and the other fields of CongressSample (format, rng, interval, clock).  The body text is
not edited; if it starts using another field or map method the scratch crate no longer compiles => UNDECIDED."""
from vf.rusttok import Source
from vf.extract import Undecided


def generate(text, rel):
    src = Source(rel, text)
    cands = []
    for b in src.find_blocks("impl", r"CongressSample < F , R >$"):
        cands += src.find_fn("update_rates", b[1] + 1, b[2])
    if len(cands) != 1:
        raise Undecided("CongressSample::update_rates found %d times" % len(cands))
    s, fi, o, c = cands[0]
    sig = src.text[src.toks[s].start:src.toks[o].start].strip()
    if " ".join(sig.split()) != "fn update_rates(&mut self)":
        raise Undecided("update_rates signature changed: %r" % sig)
    body = src.text[src.toks[o].start:src.toks[c].end]
    line = src.line_of(src.toks[s].start)
    return '''
// GENERATED on every run from %s (update_rates at line %d): body copied verbatim.
#[cfg(kani)]
mod verif_kani_gen {
    use super::*;
    pub(super) const VERIF_MAX_GROUPS: usize = 2;
    /// stand-in for HashMap<Group, GroupState>: the values only (update_rates never reads a key)
    pub(super) struct VerifGroups { pub data: [GroupState; VERIF_MAX_GROUPS], pub len: usize }
    impl VerifGroups {
        pub fn len(&self) -> usize { self.len }
        pub fn values_mut(&mut self) -> core::slice::IterMut<'_, GroupState> { self.data[..self.len].iter_mut() }
        pub fn retain(&mut self, mut f: impl FnMut(&(), &mut GroupState) -> bool) {
            let mut kept = 0;
            let mut i = 0;
            while i < self.len {
                let mut g = self.data[i];
                if f(&(), &mut g) { self.data[kept] = g; kept += 1; }
                i += 1;
            }
            self.len = kept;
        }
    }
    pub(super) struct VerifCongress { pub target_observed: u32, pub current_observed: u32, pub groups: VerifGroups }
    impl VerifCongress {
        pub(super) fn update_rates(&mut self) %s
    }
}
''' % (rel, line, body)
