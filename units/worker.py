"""Unit `worker` (C10): the worker thread of WorkerSink (metrique-aggregation/src/sink/worker.rs).

R26 closure slice: the body of the closure handed to `thread::spawn` in WorkerSink::new is verified as a function of its
captured variables (inner, flush_interval, receiver).  Sequential contract of the loop:
  * every queued entry is merged into the inner sink, in channel order; a Flush message is answered only after a flush that
    follows everything merged before it;
  * once the channel reports that every handle is gone (Disconnected) the worker emits what it still holds (one last flush)
    and returns - it never polls the channel again.
Trusted: std::sync::mpsc as a FIFO whose recv_timeout reports Disconnected only when all senders are dropped and the queue
is empty; the clock is an arbitrary oracle."""

NAME = "worker"
PROPERTIES = ["C10"]
W = "metrique-aggregation/src/sink/worker.rs"

PRELUDE = r'''
pub enum Op { Merge(int), Flush }
pub trait AggregateSink<T> {
    spec fn ops(&self) -> Seq<Op>;
    fn merge(&mut self, entry: T) ensures final(self).ops() == old(self).ops().push(Op::Merge(ghost_id(entry)));
}
pub trait FlushableSink {
    spec fn fops(&self) -> Seq<Op>;
    fn flush(&mut self) ensures final(self).fops() == old(self).fops().push(Op::Flush);
}
pub uninterp spec fn ghost_id<T>(t: T) -> int;
// the two traits speak about the same sink: one log
pub trait WorkerInner<T>: AggregateSink<T> + FlushableSink {
    proof fn same_log(&self) ensures self.ops() == self.fops();
}

// ---- clock and channel stand-ins (assumed) -------------------------------------------------------------------
#[verifier::external_body] #[derive(Clone, Copy)] pub struct Duration { _p: u8 }
#[verifier::external_body] #[derive(Clone, Copy)] pub struct Instant { _p: u8 }
impl Instant {
    #[verifier::external_body] pub fn now() -> Instant { unimplemented!() }
    #[verifier::external_body] pub fn elapsed(&self) -> Duration { unimplemented!() }
}
impl Duration {
    #[verifier::external_body] pub fn saturating_sub(self, o: Duration) -> Duration { unimplemented!() }
}
// Duration >= Duration: an arbitrary answer (the clock is an oracle)
impl vstd::std_specs::cmp::PartialOrdSpecImpl<Duration> for Duration {
    open spec fn obeys_partial_cmp_spec() -> bool { false }
    open spec fn partial_cmp_spec(&self, other: &Duration) -> Option<core::cmp::Ordering> { None }
}
impl vstd::std_specs::cmp::PartialEqSpecImpl<Duration> for Duration {
    open spec fn obeys_eq_spec() -> bool { false }
    open spec fn eq_spec(&self, other: &Duration) -> bool { true }
}
impl PartialEq for Duration { #[verifier::external_body] fn eq(&self, o: &Duration) -> bool { unimplemented!() } }
impl PartialOrd for Duration { #[verifier::external_body] fn partial_cmp(&self, o: &Duration) -> Option<core::cmp::Ordering> { unimplemented!() } }

pub mod oneshot {
    use vstd::prelude::*;
    #[verifier::external_body]
    #[verifier::reject_recursive_types(T)]
    pub struct Sender<T> { _p: core::marker::PhantomData<T> }
    impl<T> Sender<T> {
        // completes the flush request of the handle that sent it
        #[verifier::external_body] pub fn send(self, t: T) -> Result<(), T> { unimplemented!() }
    }
}
pub enum RecvTimeoutError { Timeout, Disconnected }
#[verifier::external_body]
#[verifier::reject_recursive_types(M)]
pub struct Receiver<M> { _p: core::marker::PhantomData<M> }
impl<M> Receiver<M> {
    // every handle (Sender) is gone and nothing is queued any more: stable once true
    pub uninterp spec fn dead(&self) -> bool;
    // A worker must not poll a channel it has seen disconnected: nothing can ever arrive, and recv_timeout returns at once
    // (polling again is a busy loop and the thread never terminates).
    #[verifier::external_body]
    pub fn recv_timeout(&mut self, timeout: Duration) -> (r: Result<M, RecvTimeoutError>)
        requires !old(self).dead(),                                  // OBL worker_stops_polling_after_disconnect
        ensures (r is Err && r->Err_0 is Disconnected) ==> final(self).dead(),
                !(r is Err && r->Err_0 is Disconnected) ==> !final(self).dead(),
    { unimplemented!() }
}
'''

ITEMS = [
    dict(kind="struct", file=W, name="QueueMessage", attrs=["#[verifier::reject_recursive_types(T)]"]),
    dict(kind="fn", file=W, impl=r"^impl < T , Inner > WorkerSink < T , Inner > where", name="new", label="WorkerSink::new::worker_loop",
         closure_body=dict(after="thread :: spawn ( move ||",
                           sig="fn verif_worker_loop<T, Inner: WorkerInner<T>>(mut inner: Inner, flush_interval: Duration, mut receiver: Receiver<QueueMessage<T>>)"),
         attrs=["#[verifier::exec_allows_no_decreases_clause]"],
         requires="!receiver.dead(),",
         loops={1: """
            invariant_except_break
                !receiver.dead(),                                                                              // OBL worker_stops_polling_after_disconnect
            ensures
                inner.fops().len() > 0 && inner.fops().last() == Op::Flush,
         """},
         proofs=[
             # C10: the worker returns only after it has seen every handle gone, and the last thing it did to the inner sink is a flush
             # (it emits what it still holds)
             ("end", None, "proof { inner.same_log(); assert(inner.ops().len() > 0 && inner.ops().last() == Op::Flush); /* OBL worker_emits_what_it_holds_before_exit */ }"),
             ("before", "let _ = sender . send ( ( ) ) ;",
              "proof { inner.same_log(); assert(inner.ops().last() == Op::Flush); /* OBL flush_request_answered_after_flush */ }", None, True),
         ]),
]
POSTLUDE = ""
CANARY = dict(fn="WorkerSink::new::worker_loop", field="requires", replace=("!receiver.dead(),", "receiver.dead(),"))
