// Appended to metrique/src/keep_alive.rs under #[cfg(kani)] in a scratch copy (C06, BOUNDED: every order of dropping a parent, two
// flush guards and one force-flush guard; each harness executes one order on the REAL Arc / Mutex / boxed-closure code).
// Checked after every step: the inner value has been dropped  <=>  the parent has been dropped AND (all flush guards have been
// dropped OR the force-flush guard has been dropped); and it is dropped at most once.
#[cfg(kani)]
mod verif_kani {
    use super::*;

    static mut DROPS: u32 = 0;
    struct Probe;
    impl Drop for Probe {
        fn drop(&mut self) { unsafe { DROPS += 1; } }
    }

    fn run(order: [u8; 4]) {
        unsafe { DROPS = 0; }
        let parent = Parent::new(Probe);
        let g1 = parent.new_guard();
        let g2 = parent.new_guard();
        let force = parent.force_drop_guard();
        let mut parent = Some(parent);
        let mut g1 = Some(g1);
        let mut g2 = Some(g2);
        let mut force = Some(force);
        let mut i = 0;
        while i < 4 {
            match order[i] {
                0 => drop(parent.take()),
                1 => drop(g1.take()),
                2 => drop(g2.take()),
                _ => drop(force.take()),
            }
            let expected = parent.is_none() && ((g1.is_none() && g2.is_none()) || force.is_none());
            let drops = unsafe { DROPS };
            assert!(drops <= 1);
            assert!((drops == 1) == expected);
            i += 1;
        }
        assert!(unsafe { DROPS } == 1);
    }

    macro_rules! orders { ($($name:ident = [$a:expr, $b:expr, $c:expr, $d:expr]),* $(,)?) => { $( #[kani::proof] #[kani::unwind(6)] fn $name() { run([$a, $b, $c, $d]) } )* } }
    orders!(
        order_0123 = [0, 1, 2, 3], order_0132 = [0, 1, 3, 2], order_0213 = [0, 2, 1, 3], order_0231 = [0, 2, 3, 1], order_0312 = [0, 3, 1, 2], order_0321 = [0, 3, 2, 1],
        order_1023 = [1, 0, 2, 3], order_1032 = [1, 0, 3, 2], order_1203 = [1, 2, 0, 3], order_1230 = [1, 2, 3, 0], order_1302 = [1, 3, 0, 2], order_1320 = [1, 3, 2, 0],
        order_2013 = [2, 0, 1, 3], order_2031 = [2, 0, 3, 1], order_2103 = [2, 1, 0, 3], order_2130 = [2, 1, 3, 0], order_2301 = [2, 3, 0, 1], order_2310 = [2, 3, 1, 0],
        order_3012 = [3, 0, 1, 2], order_3021 = [3, 0, 2, 1], order_3102 = [3, 1, 0, 2], order_3120 = [3, 1, 2, 0], order_3201 = [3, 2, 0, 1], order_3210 = [3, 2, 1, 0],
    );
}
