"""Properties not claimed, with the reason (kept in sync with DESIGN.md section 10).
Entries for properties that are claimed in registry.PROPS are ignored by mkmanifest."""
PENDING = "not claimed yet in this build session: the unit planned for it in DESIGN.md section 4 has not been built/validated"
NOT_APPLICABLE = {
    "C11": "the planned Kani decomposition (value->bucket for all doubles per power-of-two range; bucket->observation through the real 976-bucket drain per concrete index) has not been built and validated; "
           "the monolithic harness did not finish in 8 min; not claimed until a unit exists that catches a seeded change",
    "C06": "the guarantee is the cross-thread order in which Arc/guard references are released (Drop + reference counts); Verus models neither, Kani has no threads and did not finish even 4 sequential symbolic drop steps",
    "C07": "quantifies over programs given to a proc macro; no installed deductive verifier takes token streams as symbolic input and the inflection lives in a dependency",
    "C10": "conservation is over histories of a hashbrown raw-entry map and macro-generated Merge/Key impls; flush completion and termination are properties of a closure inside thread::spawn. "
           "A Verus unit for KeyedAggregator::{get_or_create_accum, merge, flush} over a ghost-map model of the raw-entry API was drafted (units/_draft_aggregator.py) but the extracted real signature "
           "(generic associated type Key<'a> under &'a mut HashMap<Key<'static>, _>) is rejected by this Verus' lifetime pass (E0309: implied bounds lost), so nothing is claimed",
    "C13": "decided by tokio::oneshot send vs. flush-guard release order inside a destructor racing with the parent's close on another thread",
    "C17": "the routing code is the body of a macro_rules! over a static RwLock, a thread-local and a per-runtime map; histories span threads and runtimes",
    "C20": "exactly-once accounting rests on the atomicity of swap(0)/drain against concurrent updates; there is no sequential function whose contract carries it",
}
