// Appended to metrique-writer/src/sample/mod.rs under #[cfg(kani)] in a scratch copy (C12).
#[cfg(kani)]
mod verif_kani {
    use super::*;
    use metrique_writer_core::{EntryWriter};

    #[derive(Clone)]
    struct ScriptRng { w32: u32, w64: u64 }
    impl RngCore for ScriptRng {
        fn next_u32(&mut self) -> u32 { self.w32 }
        fn next_u64(&mut self) -> u64 { self.w64 }
        fn fill_bytes(&mut self, dest: &mut [u8]) { let mut i = 0; while i < dest.len() { dest[i] = self.w32 as u8; i += 1; } }
    }
    struct Nop;
    impl Entry for Nop {
        fn write<'a>(&'a self, _w: &mut impl EntryWriter<'a>) {}
    }
    // a format that records how it was called
    struct Rec { sampled_calls: u32, plain_calls: u32, rate_bits: u32 }
    impl Format for Rec {
        fn format(&mut self, _e: &impl Entry, _o: &mut impl io::Write) -> Result<(), IoStreamError> { self.plain_calls += 1; Ok(()) }
    }
    impl SampledFormat for Rec {
        fn format_with_sample_rate(&mut self, _e: &impl Entry, _o: &mut impl io::Write, rate: f32) -> Result<(), IoStreamError> {
            self.sampled_calls += 1;
            self.rate_bits = rate.to_bits();
            Ok(())
        }
    }

    // C12, first sentence: for EVERY representable f32 rate in (0,1] and EVERY value of the random draw:
    // the entry is forwarded exactly when draw <= rate, exactly once, with exactly the configured rate.
    // Loop-free => complete.
    #[kani::proof]
    fn fixed_fraction_format_all_rates_all_draws() {
        let rate: f32 = kani::any();
        kani::assume(rate.is_finite() && 0.0 < rate && rate <= 1.0);
        let rng = ScriptRng { w32: kani::any(), w64: kani::any() };
        // the draw the sampler will see (same generator state, same rand conversion)
        let draw: f32 = rng.clone().random::<f32>();
        assert!(draw >= 0.0 && draw < 1.0);
        let mut s = FixedFractionSample::with_rng(Rec { sampled_calls: 0, plain_calls: 0, rate_bits: 0 }, rate, rng);
        let mut out = io::sink();
        let r = s.format(&Nop, &mut out);
        assert!(r.is_ok());
        let rec = &s.format;
        assert!(rec.plain_calls == 0);
        if draw <= rate {
            assert!(rec.sampled_calls == 1);
            assert!(rec.rate_bits == rate.to_bits());
        } else {
            assert!(rec.sampled_calls == 0);
        }
        kani::cover!(draw <= rate, "emit reachable");
        kani::cover!(draw > rate, "drop reachable");
        // rate 1 always emits
        if rate == 1.0 { assert!(rec.sampled_calls == 1); }
    }

    // the constructor's documented panic is exactly the domain check
    #[kani::proof]
    #[kani::should_panic]
    fn fixed_fraction_rejects_bad_rate() {
        let rate: f32 = kani::any();
        kani::assume(!(rate.is_finite() && 0.0 < rate && rate <= 1.0));
        let _ = FixedFractionSample::with_rng(Rec { sampled_calls: 0, plain_calls: 0, rate_bits: 0 }, rate, ScriptRng { w32: 0, w64: 0 });
    }
}
