"""Replay search for Verus failures (Verus gives no counterexample).

For a failed obligation the unit may name a native replay search: a Rust test, compiled against a
scratch copy of /repo's working tree, that evaluates the same postcondition through the public API
on a small enumerated family of inputs.  The search never decides anything: if it finds a failing
input, that input is attached to the violation; otherwise the VIOLATION line ends with
no-failing-input-found."""
import importlib
import os


def search(prop, unit_result, failure, log):
    unit_name = unit_result["unit"].split("[")[0]
    try:
        mod = importlib.import_module("replay_search." + unit_name)
    except ImportError:
        return {"failing_input": None, "how_to_replay": "no native replay search is defined for unit %s; re-run `bin/check %s --keep` and inspect the generated unit" % (unit_name, prop)}
    try:
        return mod.search(prop, unit_result, failure, log)
    except Exception as e:  # the search never decides anything
        log("  replay search failed: %r" % (e,))
        return {"failing_input": None, "how_to_replay": "replay search crashed: %r" % (e,)}
